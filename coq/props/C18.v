(* C18 — the MQTT transport maps topics and lines one-to-one and never goes silently deaf.
   PARTIAL: the broker and aiomqtt / paho are not modelled; '+' matching is the MQTT
   specification's, taken as given; the cancellation of the receive task on
   disconnect is checked on the real event loop only. *)
From Coq Require Import List NArith ZArith Bool String.
From AMS Require Import Models PyStrFacts CodecFacts Mqtt MqttFacts Utf8Facts.
Import ListNotations.

(* writing publishes the payload (';' included) to out-prefix/node/child/command/ack/type
   with QoS = ack, for every prefix, with or without '/' inside *)
Theorem C18_publish :
  forall pre m, wf_msg m -> digits_ok (m_type m) -> rstrip (m_payload m) = m_payload m ->
    to_mqtt pre (encode m) = Some (pre ++ slash :: join slash (num_fields m), m_payload m, m_ack m).
Proof. exact publish_form. Qed.
Print Assumptions C18_publish.

(* the call that reaches the broker client (MQTTClient._publish): QoS = ack, retain
   off, for every message — with an empty payload too *)
Theorem C18_client_publish :
  forall pre m, wf_msg m -> digits_ok (m_type m) -> rstrip (m_payload m) = m_payload m ->
    client_write pre (encode m)
    = Some (pre ++ slash :: join slash (num_fields m), m_ack m, false,
            match m_payload m with [] => None | _ => Some (m_payload m) end).
Proof. exact client_publish_form. Qed.
Print Assumptions C18_client_publish.

(* a broker message on in-prefix/node/child/command/ack/type is read back as the line
   node;child;command;ack;type;payload *)
Theorem C18_read_back :
  forall inpre m p, of_mqtt (inpre ++ slash :: join slash (num_fields m)) p = join delimiter (num_fields m ++ [p]).
Proof. exact echo_line. Qed.
Print Assumptions C18_read_back.

(* so a message sent through MQTT and echoed under the in-prefix decodes to the same message *)
Theorem C18_echo :
  forall pt outpre inpre m,
    In pt protocols -> wf_msg m -> digits_ok (m_type m) -> rstrip (m_payload m) = m_payload m ->
    exists topic_tail payload qos,
      to_mqtt outpre (encode m) = Some (outpre ++ slash :: topic_tail, payload, qos)
      /\ qos = m_ack m
      /\ decode pt (of_mqtt (inpre ++ slash :: topic_tail) payload) = DecOk m.
Proof. exact echo_roundtrip. Qed.
Print Assumptions C18_echo.

(* connecting subscribes so that every topic in-prefix/n/c/k/a/t with k in 0..4 is covered *)
Theorem C18_subscribed :
  forall inpre n c k a t,
    (0 <= k <= 4)%Z -> no_sep slash n -> no_sep slash c -> no_sep slash a -> no_sep slash t ->
    exists flt, In flt (map fst (subscriptions inpre))
                /\ filter_matches flt (inpre ++ slash :: join slash [n; c; str_of_Z k; a; t]) = true.
Proof. exact subscribed. Qed.
Print Assumptions C18_subscribed.

(* received messages and errors reach read() in arrival order, each exactly once *)
Theorem C18_fifo : forall q n, reads q n = (firstn n q, skipn n q).
Proof. exact reads_fifo. Qed.
Print Assumptions C18_fifo.


(* "connect followed by disconnect completes without raising", and the client is then as
   new: a later connect behaves like the first one, at every fault position *)
Theorem C18_connect_disconnect :
  forall pre faults,
    let s1 := fst (mqtt_connect pre false [] mc_init) in
    let s2 := fst (mqtt_disconnect s1) in
    snd (mqtt_disconnect s1) = ConnOk /\ s2 = mc_init
    /\ mqtt_connect pre false faults s2 = mqtt_connect pre false faults mc_init.
Proof. exact connect_disconnect_connect. Qed.
Print Assumptions C18_connect_disconnect.

(* "delivered to reads in arrival order, each exactly once", over the whole life of one client:
   for EVERY interleaving of connects, disconnects, broker deliveries (messages, undecodable
   payloads, broker errors) and reads, what the reads returned followed by what is still
   queued is exactly what the receive loops accepted, in arrival order — a disconnect drops
   nothing, a reconnect replays nothing *)
Theorem C18_life_fifo :
  forall ops s,
    gots (snd (life_run s ops)) ++ ml_queue (fst (life_run s ops)) = ml_queue s ++ life_received s ops.
Proof. exact life_fifo. Qed.
Print Assumptions C18_life_fifo.

Theorem C18_life_read_pending :
  forall s, snd (life_step s LRead) = LPending <-> ml_queue s = [].
Proof. exact life_read_pending. Qed.
Print Assumptions C18_life_read_pending.

(* never deaf after a reconnect, whatever ended reception before *)
Theorem C18_life_reconnect_receives :
  forall s e, ml_connected s = true ->
    let s2 := fst (life_step (fst (life_step s LDisconnect)) LConnect) in
    ml_queue (fst (life_step s2 (LDeliver e))) = ml_queue s ++ [entry_of e].
Proof. exact life_reconnect_receives. Qed.
Print Assumptions C18_life_reconnect_receives.

Example C18_life_example :
  let m := BMsg (lit "in/7/1/1/0/2") [49%N] in
  let ops := [LRead; LConnect; LDeliver m; LDeliver BError; LDeliver m; LDisconnect; LRead; LConnect; LDeliver m; LRead; LRead; LRead] in
  snd (life_run ml_init ops)
  = [LPending; LDone; LDone; LDone; LDone; LDone; LGot (QLine (lit "7;1;1;0;2;1")); LDone; LDone;
     LGot QFailed; LGot (QLine (lit "7;1;1;0;2;1")); LPending].
Proof. vm_compute. reflexivity. Qed.

(* never silently deaf: every broker message yields one entry (an undecodable payload a
   read error, and later messages are still delivered); a broker error surfaces as a
   transport error after everything that arrived before it *)
Theorem C18_not_deaf :
  (forall evs, forallb is_msg evs = true -> receive_loop evs = map entry_of evs)
  /\ (forall pre rest, forallb is_msg pre = true ->
        receive_loop (pre ++ BError :: rest) = map entry_of pre ++ [QFailed]).
Proof. exact (conj receive_all_messages receive_until_error). Qed.
Print Assumptions C18_not_deaf.

Theorem C18_payload_text :
  forall topic s bs, utf8_encode s = Some bs -> entry_of (BMsg topic bs) = QLine (of_mqtt topic s).
Proof. exact receive_text. Qed.
Print Assumptions C18_payload_text.

Example C18_example :
  to_mqtt (lit "a/b") (lit "1;2;1;1;49;x;y" ++ [10%N]) = Some (lit "a/b/1/2/1/1/49", lit "x;y", 1%Z)
  /\ of_mqtt (lit "mygateway1-out/extra/1/2/1/1/49") (lit "x;y") = lit "1;2;1;1;49;x;y"
  /\ receive_loop [BMsg (lit "p/1/2/1/0/2") [255; 254]%N; BMsg (lit "p/1/2/1/0/2") [49]%N; BError; BMsg (lit "p/1/2/1/0/2") [50]%N]
     = [QReadError; QLine (lit "1;2;1;0;2;1"); QFailed].
Proof. vm_compute. repeat split. Qed.
