(* C10 — unknown node or child triggers one presentation request per episode (2.x). *)
From Coq Require Import List NArith ZArith String Lia.
From AMS Require Import Models Codec GatewayFacts GatewayInv GatewaySteps GatewayTrace GatewayMarker.
Import ListNotations.
Local Open Scope Z_scope.

(* the wrapper around every 2.x handler f that can miss a node or child: a
   missing-node / missing-child error of f is followed by the request logic, any
   other result passes through untouched *)
Theorem C10_wrapper :
  forall f m s,
    dec_mnc f m s =
    match f m s with
    | (inl a, s') => (inl a, s')
    | (inr e, s') => if is_missing e then request_presentation m e s' else (inr e, s')
    end.
Proof. exact dec_mnc_eq. Qed.
Print Assumptions C10_wrapper.

(* the request logic in closed form: marker (node, 255, 19) present -> no write,
   the original error is re-raised; absent -> exactly one attempt to write
   'node;255;3;0;19;', on success the marker is recorded and the original error
   re-raised, on a fault the transport error is raised and the marker stays absent *)
Theorem C10_request :
  forall m e s,
    request_presentation m e s =
    let pm := pres_request (m_node m) in
    if dmem key_eqb (w_internal (s_w s)) (pres_key (m_node m))
    then (inr e, with_internal s (dset key_eqb (w_internal (s_w s)) (pres_key (m_node m)) pm))
    else
      match write_msg pm s with
      | (inl _, s1) => (inr e, with_internal s1 (dset key_eqb (w_internal (s_w s1)) (pres_key (m_node m)) pm))
      | (inr e', s1) => (inr e', s1)
      end.
Proof. exact request_presentation_eq. Qed.
Print Assumptions C10_request.

(* a node presentation under 2.x clears that node's marker before anything else *)
Theorem C10_presentation_clears :
  forall bat vlt now super m s,
    run_body1 bat vlt now BPresentation20 super m s =
    super m (with_internal s (dpop key_eqb (w_internal (s_w s)) (m_node m, m_child m, 19))).
Proof. exact body_presentation20. Qed.
Print Assumptions C10_presentation_clears.

(* markers of different nodes are independent: removing or setting one key leaves the others *)
Theorem C10_independent :
  forall (b : list (key * msg)) k k' v, key_eqb k' k = false ->
    dget key_eqb (dset key_eqb b k v) k' = dget key_eqb b k'
    /\ dget key_eqb (dpop key_eqb b k) k' = dget key_eqb b k'.
Proof.
  intros b k k' v H. split.
  - apply (dget_dset_other key_eqb key_eqb_spec). exact H.
  - apply (dpop_other key_eqb key_eqb_spec). exact H.
Qed.
Print Assumptions C10_independent.

(* with protocols before 2.0 no presentation request is ever written — whatever
   line arrives, in whatever state — and no marker changes *)
Theorem C10_pre20 :
  forall bat vlt now line s,
    Inv vlt (s_w s) -> (w_proto (s_w s) < 2)%nat ->
    w_set (s_w (snd (listen_step bat vlt now line s))) = w_set (s_w s)
    /\ w_internal (s_w (snd (listen_step bat vlt now line s))) = w_internal (s_w s)
    /\ exists new, s_log (snd (listen_step bat vlt now line s)) = new ++ s_log s /\ Forall notreq new.
Proof. exact pre20_quiet. Qed.
Print Assumptions C10_pre20.

(* under any protocol: a presentation request is written only if the generated tables
   put the missing-node/child wrapper on the path of this message (so e.g. config,
   time, id, log, gateway-ready, version messages never cause one); a rejected line never does *)
Theorem C10_request_only_from_wrapper :
  forall bat vlt now line s m,
    Inv vlt (s_w s) -> decode (proto_of (s_w s)) line = DecOk m ->
    a_request (listen_allow (w_proto (s_w s)) m) = false ->
    exists new, s_log (snd (listen_step bat vlt now line s)) = new ++ s_log s /\ Forall notreq new.
Proof. exact request_only_from_wrapper. Qed.
Print Assumptions C10_request_only_from_wrapper.

Theorem C10_rejected_line_is_silent :
  forall bat vlt now line s,
    Inv vlt (s_w s) -> (forall m, decode (proto_of (s_w s)) line <> DecOk m) ->
    w_set (s_w (snd (listen_step bat vlt now line s))) = w_set (s_w s)
    /\ w_internal (s_w (snd (listen_step bat vlt now line s))) = w_internal (s_w s)
    /\ exists new, s_log (snd (listen_step bat vlt now line s)) = new ++ s_log s /\ Forall notreq new.
Proof. exact rejected_line_keeps_everything. Qed.
Print Assumptions C10_rejected_line_is_silent.

(* ---------- the life of one node's marker, for EVERY line, state, oracle, fault stream ---------- *)

(* a message of another node leaves n's marker as it is and writes no request to n *)
Theorem C10_foreign_step :
  forall bat vlt now n line s m,
    sbuf_ok (s_w s) -> decode (proto_of (s_w s)) line = DecOk m -> m_node m <> n ->
    hm n (snd (listen_step bat vlt now line s)) = hm n s
    /\ exists new, new_events bat vlt now line s new /\ Forall (nr n) new.
Proof. exact foreign_step. Qed.
Print Assumptions C10_foreign_step.

(* while a request to n is outstanding, no message other than n's own node presentation makes
   the controller write another one, and the marker stays *)
Theorem C10_outstanding_step :
  forall bat vlt now n line s m,
    sbuf_ok (s_w s) -> decode (proto_of (s_w s)) line = DecOk m ->
    hm n s = true -> is_node_presentation_of_n n m = false ->
    hm n (snd (listen_step bat vlt now line s)) = true
    /\ exists new, new_events bat vlt now line s new /\ Forall (nr n) new.
Proof. exact outstanding_step. Qed.
Print Assumptions C10_outstanding_step.

(* every step writes no request to n or exactly one; one is written only for a message of n
   itself when none was outstanding (or n has just presented itself), the step then ends in an
   error, a successful write is recorded, and when nothing is recorded afterwards ("a request
   whose write failed does not count") the error is the transport's, not a missing-node/child one *)
Theorem C10_one_request_step :
  forall bat vlt now n line s m,
    sbuf_ok (s_w s) -> decode (proto_of (s_w s)) line = DecOk m ->
    exists new, new_events bat vlt now line s new
      /\ (Forall (nr n) new
          \/ (m_node m = n
              /\ (hm n s = false \/ is_node_presentation_of_n n m = true)
              /\ (exists err, fst (listen_step bat vlt now line s) = inr err
                              /\ (hm n (snd (listen_step bat vlt now line s)) = false -> is_missing err = false))
              /\ exists a e b, new = a ++ e :: b /\ isreq n e /\ Forall (nr n) a /\ Forall (nr n) b
                 /\ (we_ok e = true -> hm n (snd (listen_step bat vlt now line s)) = true))).
Proof. exact one_request_step. Qed.
Print Assumptions C10_one_request_step.

(* THE EPISODE over whole histories: once a request to n is outstanding, no continuation —
   lines from any node with any fault stream, set commands sent by the application,
   reconnects — writes another request to n, until n presents itself *)
Theorem C10_outstanding_history :
  forall bat vlt now n ops w,
    Inv vlt w ->
    Forall (fun o => op_ok o /\ app_op o /\ not_presentation_of_n n o) ops ->
    wm n w = true ->
    Forall (fun x => Forall (nr n) (snd x)) (trace bat vlt now w ops)
    /\ wm n (run_ops bat vlt now w ops) = true.
Proof. exact outstanding_history. Qed.
Print Assumptions C10_outstanding_history.

(* which handlers carry the wrapper, from the generated tables: none before 2.0;
   from 2.0 on every handler that can raise a missing-node/child error *)
Theorem C10_tables :
  forallb (fun p => forallb (fun e => negb (uses_mnc (snd e))) (pt_incoming p)) [proto_1_4; proto_1_5] = true
  /\ forallb (fun p =>
      forallb (fun n => match lookup_chain (pt_incoming p) n with
                        | Some ((_, ds) :: _) => existsb (String.eqb "handle_missing_node_child") ds
                        | _ => false
                        end)
        ["handle_presentation"; "handle_set"; "handle_req"; "handle_stream"; "handle_i_battery_level";
         "handle_i_sketch_name"; "handle_i_sketch_version"; "handle_i_discover_response";
         "handle_i_heartbeat_response"]%string)
      [proto_2_0; proto_2_1; proto_2_2] = true.
Proof. exact (conj tables_mnc_pre20 tables_mnc_20). Qed.
Print Assumptions C10_tables.

(* non-vacuity: an episode on concrete states under 2.1 and the same traffic under 1.5 *)
Definition ex_bat : list N -> option Z := fun _ => Some 5.
Definition ex_vlt := vlt_full (fun _ _ => None).
Definition ex_start (v : string) : world := fst (fst (recv ex_bat ex_vlt 0 (init_world true) [] (lit v))).
Definition ex_step (w : world) (l : string) (f : list bool) := recv ex_bat ex_vlt 0 w f (lit l).
Definition nl (s : string) : list N := lit s ++ [10%N].

Example C10_example :
  let start := ex_start in let step := ex_step in
  let w0 := ex_start "0;255;3;0;2;2.1" in
  let r1 := ex_step w0 "7;1;1;0;2;1" [true] in          (* request write fails *)
  let r2 := ex_step (fst (fst r1)) "7;1;1;0;2;1" [] in  (* so it is attempted again *)
  let r3 := ex_step (fst (fst r2)) "7;255;3;0;0;55" [] in (* outstanding: nothing written *)
  let r4 := ex_step (fst (fst r3)) "7;255;0;0;17;2.1" [] in (* node 7 presents itself *)
  let r5 := ex_step (fst (fst r4)) "7;1;1;0;2;1" [] in  (* child still unknown: new episode *)
  let q1 := ex_step (ex_start "0;255;3;0;2;1.5") "7;1;1;0;2;1" [] in
  (snd (fst r1), map we_ok (snd r1)) = (Raise ETransport, [false])
  /\ (snd (fst r2), map we_line (snd r2)) = (Raise (EMissingNode 7), [nl "7;255;3;0;19;"])
  /\ (snd (fst r3), snd r3) = (Raise (EMissingNode 7), [])
  /\ snd r4 = [] /\ w_internal (fst (fst r4)) = []
  /\ (snd (fst r5), map we_line (snd r5)) = (Raise (EMissingChild 1), [nl "7;255;3;0;19;"])
  /\ (snd (fst q1), snd q1) = (Raise (EMissingNode 7), []).
Proof. vm_compute. repeat split. Qed.

(* non-vacuity of C10_outstanding_history: after the request of r2 above is outstanding, a
   history of further traffic of node 7 and of node 8 (unknown too: it gets its own request) *)
Example C10_history_example :
  let w2 := fst (fst (ex_step (fst (fst (ex_step (ex_start "0;255;3;0;2;2.1") "7;1;1;0;2;1" [true]))) "7;1;1;0;2;1" [])) in
  let ops := [ORecv (lit "7;255;3;0;0;55") []; ORecv (lit "8;1;1;0;2;1") []; ORecv (lit "7;2;2;0;3;") [true];
              OReconnect; OSend (mk_msg 7 1 1 0 2 (lit "1")) true []; ORecv (lit "7;1;0;0;3;") []] in
  wm 7 w2 = true
  /\ Forall (fun o => op_ok o /\ app_op o /\ not_presentation_of_n 7 o) ops
  /\ map (fun x => List.length (snd x)) (trace ex_bat ex_vlt 0 w2 ops) = [0; 1; 0; 0; 1; 0]%nat.
Proof.
  split; [vm_compute; reflexivity|split; [|vm_compute; reflexivity]].
  repeat (apply Forall_cons; [|]); try apply Forall_nil.
  all: cbn [op_ok app_op not_presentation_of_n]; repeat split; try exact I; try reflexivity.
  all: try (cbn [mk_msg m_node m_child m_cmd m_ack m_type] in *; lia).
  all: intros m E; vm_compute in E; injection E as <-; reflexivity.
Qed.
