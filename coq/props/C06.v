(* C06 — writes are exactly the specified reactions, addressed to the asker, unbuffered. *)
From Coq Require Import List NArith ZArith Bool String.
From AMS Require Import Models Codec GatewayFacts GatewayInv GatewaySteps GatewayAddr.
Import ListNotations.
Local Open Scope Z_scope.

(* the version-query wrapper around every command handler f, in closed form: run
   f, then (also when f raised) exactly one version query iff the version is still
   unknown and the message is not a log (9) / gateway-ready (14) internal message *)
Theorem C06_version_query :
  forall f m s, dec_mpv f m s = mpv_finally m (fst (f m s)) (snd (f m s)).
Proof. exact dec_mpv_eq. Qed.
Print Assumptions C06_version_query.

(* the six reactions, each in closed form: one write attempt, addressed to the asker *)
Theorem C06_config :
  forall bat vlt now m s, m_cmd m = 3 ->
    run_body2 bat vlt now BConfig no_super m s =
    reply m (mk_msg (m_node m) (m_child m) 3 0 (m_type m) (if w_metric (s_w s) then [77%N] else [73%N])) s.
Proof. exact body_config. Qed.
Print Assumptions C06_config.

Theorem C06_time :
  forall bat vlt now m s, m_cmd m = 3 ->
    run_body2 bat vlt now BTime no_super m s =
    reply m (mk_msg (m_node m) (m_child m) 3 0 (m_type m) (str_of_Z now)) s.
Proof. exact body_time. Qed.
Print Assumptions C06_time.

Theorem C06_gateway_ready :
  forall bat vlt now m s, m_cmd m = 3 ->
    run_body2 bat vlt now BGatewayReady no_super m s = reply m (mk_msg 255 (m_child m) 3 0 20 []) s.
Proof. exact body_gateway_ready. Qed.
Print Assumptions C06_gateway_ready.

Theorem C06_req :
  forall bat vlt now m s,
    run_body1 bat vlt now BReq14 no_super m s =
    match dget Z.eqb (w_nodes (s_w s)) (m_node m) with
    | None => (inr (EMissingNode (m_node m)), s)
    | Some n =>
        match dget Z.eqb (n_children n) (m_child m) with
        | None => (inr (EMissingChild (m_child m)), s)
        | Some c =>
            match dget Z.eqb (c_values c) (m_type m) with
            | None => (inl m, s)
            | Some v => reply m (mk_msg (m_node m) (m_child m) 1 0 (m_type m) v) s
            end
        end
    end.
Proof. exact body_req. Qed.
Print Assumptions C06_req.

Theorem C06_reboot_on_set :
  forall bat vlt now m s,
    run_body1 bat vlt now BSet14 no_super m s =
    match dget Z.eqb (w_nodes (s_w s)) (m_node m) with
    | None => (inr (EMissingNode (m_node m)), s)
    | Some n =>
        if dmem Z.eqb (n_children n) (m_child m) then
          let s1 := with_nodes s (dset Z.eqb (w_nodes (s_w s)) (m_node m)
                                    (set_child_value n (m_child m) (m_type m) (m_payload m))) in
          if n_reboot n then reply m (mk_msg (m_node m) 255 3 0 13 []) s1 else (inl m, s1)
        else (inr (EMissingChild (m_child m)), s)
    end.
Proof. exact body_set. Qed.
Print Assumptions C06_reboot_on_set.

(* the id response: C11_alloc.  Reactions are never parked: a listen step adds nothing to the sleep buffer *)
Theorem C06_unbuffered :
  forall bat vlt now line s, Inv vlt (s_w s) ->
    incl (w_set (s_w (snd (listen_step bat vlt now line s)))) (w_set (s_w s)).
Proof.
  intros bat vlt now line s Hi.
  destruct (good_listen_step bat vlt now line s Hi) as [_ [[_ [_ [H _]]] _]]. exact H.
Qed.
Print Assumptions C06_unbuffered.

(* a handler-issued send with buffering off is one write attempt of the encoded message *)
Theorem C06_send_is_write :
  forall m s, m_cmd m = 3 \/ m_cmd m = 1 -> send m false s = write_msg m s.
Proof.
  intros m s [H|H]; [apply send_unbuffered_internal|apply send_unbuffered_set]; exact H.
Qed.
Print Assumptions C06_send_is_write.

(* "addressed to the node that asked": for EVERY line, state, oracle and fault stream, every write
   attempted during one listen step carries a message addressed to the sender of the received
   message, or is the version query (to the gateway, node 0) or the discover broadcast
   (node 255, type 20) — released parked commands included *)
Theorem C06_addressed :
  forall bat vlt now nd line s,
    (forall m, decode (proto_of (s_w s)) line = DecOk m -> m_node m = nd) ->
    exists new, s_log (snd (listen_step bat vlt now line s)) = new ++ s_log s
      /\ Forall (fun e => m_node (we_msg e) = nd \/ we_msg e = version_query_msg \/ discover_msg (we_msg e)) new.
Proof. exact ad_listen_step. Qed.
Print Assumptions C06_addressed.

(* which internal type reaches which reaction, from the generated tables *)
Theorem C06_tables :
  forallb (fun p =>
    match enum_lname_of (pt_internal p) 6, enum_lname_of (pt_internal p) 1,
          enum_lname_of (pt_internal p) 9, enum_lname_of (pt_internal p) 14 with
    | Some c, Some t, Some l, Some g =>
        String.eqb c "i_config" && String.eqb t "i_time" && String.eqb l "i_log_message" && String.eqb g "i_gateway_ready"
    | _, _, _, _ => false
    end) protocols = true
  /\ map (fun p => match lookup_chain (pt_incoming p) "handle_i_gateway_ready" with Some _ => true | None => false end) protocols
     = [false; false; true; true; true].
Proof. vm_compute. split; reflexivity. Qed.
Print Assumptions C06_tables.

(* end to end on concrete states: every reaction of the statement, version unknown and known *)
Definition ex_bat : list N -> option Z := fun _ => Some 5.
Definition ex_vlt := vlt_full (fun _ _ => None).
Definition ex_step (w : world) (l : string) := recv ex_bat ex_vlt 1700000000 w [] (lit l).
Definition nl (s : string) : list N := lit s ++ [10%N].
Definition ex_lit (s : string) : list N := lit s.

Example C06_examples :
  let lines (r : world * outcome * list wevent) := map we_line (snd r) in
  let w0 := init_world false in
  let w1 := fst (fst (ex_step w0 "0;255;3;0;2;2.2")) in
  let w2 := w_set_value (w_add_child (w_put_node w1 (mk_node 3 17 (ex_lit "2.2") [] [] 0 0 false true)) 3 1 0 []) 3 1 0 (ex_lit "20.5") in
  lines (ex_step w0 "3;255;3;0;6;0") = [nl "3;255;3;0;6;I"; nl "0;255;3;0;2;"]
  /\ lines (ex_step w0 "0;255;3;0;9;log") = []
  /\ lines (ex_step w0 "0;255;3;0;14;ready") = []
  /\ lines (ex_step w0 "0;255;3;0;2;2.2") = []
  /\ lines (ex_step w1 "3;255;3;0;6;0") = [nl "3;255;3;0;6;I"]
  /\ lines (ex_step w1 "3;255;3;0;1;") = [nl "3;255;3;0;1;1700000000"]
  /\ lines (ex_step w1 "0;255;3;0;14;ready") = [nl "255;255;3;0;20;"]
  /\ lines (ex_step w2 "3;1;2;0;0;") = [nl "3;1;1;0;0;20.5"]
  /\ w_set (fst (fst (ex_step w2 "3;1;2;0;0;"))) = []
  /\ lines (ex_step w2 "3;1;2;0;1;") = []
  /\ lines (ex_step (w_set_reboot w2 3 true) "3;1;1;0;0;21") = [nl "3;255;3;0;13;"]
  /\ lines (ex_step w2 "3;1;1;0;0;21") = [].
Proof. vm_compute. repeat split. Qed.
