(* C05 — the active protocol is the newest supported one not newer than reported. *)
From Coq Require Import List NArith ZArith Bool String.
From AMS Require Import Models Codec GatewayFacts GatewayInv GatewaySteps VersionFacts GatewayVer.
From AMS Require Import GatewayVerStep.
Import ListNotations.

(* selection, for every release string of the dotted-numeric grammar with at
   least major.minor (any number of further components, any size), whatever the
   library answers outside the grammar *)
Theorem C05_select :
  forall orc s maj mi rest,
    parse_ver s = Some (maj :: mi :: rest) ->
    get_protocol (vlt_full orc) s = Some (select maj mi).
Proof. exact get_protocol_select. Qed.
Print Assumptions C05_select.

(* ... and the selected index is the property's: the newest supported (a, b) with
   (a, b) <= (major, minor), protocol 1.4 (index 0) if there is none *)
Theorem C05_select_is_newest_leq :
  forall maj mi,
    let i := select maj mi in
    (i < 5)%nat
    /\ (i = 0%nat \/ pair_le (fst (nth i supported (0, 0)%N)) (snd (nth i supported (0, 0)%N)) maj mi)
    /\ forall j, (i < j < 5)%nat ->
         ~ pair_le (fst (nth j supported (0, 0)%N)) (snd (nth j supported (0, 0)%N)) maj mi.
Proof. exact select_spec. Qed.
Print Assumptions C05_select_is_newest_leq.

(* the supported versions are the keys of the generated PROTOCOL_VERSIONS table *)
Theorem C05_supported_keys :
  map (fun p => parse_ver (pt_key p)) protocols
  = [Some [1; 4]; Some [1; 5]; Some [2; 0]; Some [2; 1]; Some [2; 2]]%N.
Proof. exact supported_keys_parse. Qed.
Print Assumptions C05_supported_keys.

(* reported version and active rules never disagree, in every reachable state
   (part of the invariant, re-established by every step — also a rejected report) *)
Theorem C05_agree :
  forall bat vlt now metric ops,
    Forall op_ok ops ->
    let w := run_ops bat vlt now (init_world metric) ops in
    (w_proto w < 5)%nat
    /\ match w_pv w with
       | None => w_proto w = 0%nat
       | Some v => get_protocol vlt v = Some (w_proto w)
       end.
Proof.
  intros bat vlt now metric ops H. cbv zeta.
  destruct (run_ops_inv bat vlt now ops _ (Inv_init vlt metric) H) as [Hi _].
  exact (conj (inv_proto _ _ Hi) (inv_agree _ _ Hi)).
Qed.
Print Assumptions C05_agree.

(* the type gate: an internal message is refused as unsupported by the command
   handler iff its type has no member in the active protocol's Internal table *)
Theorem C05_gate :
  forall bat vlt now m s,
    (enum_lname_of (pt_internal (proto_of (s_w s))) (m_type m) = None ->
       internal_inner bat vlt now m s = (inr (EUnsupported m (pv_or_default (s_w s))), s))
    /\ (forall ln, enum_lname_of (pt_internal (proto_of (s_w s))) (m_type m) = Some ln ->
       internal_inner bat vlt now m s = dispatch2 bat vlt now ("handle_" ++ ln) m s).
Proof.
  intros bat vlt now m s. unfold internal_inner, bind, get_w. cbn beta iota. split.
  - intros ->. reflexivity.
  - intros ln ->. reflexivity.
Qed.
Print Assumptions C05_gate.

Theorem C05_listen_internal :
  forall bat vlt now line m s,
    decode (proto_of (s_w s)) line = DecOk m -> m_cmd m = 3%Z ->
    listen_step bat vlt now line s = dec_mpv (internal_inner bat vlt now) m s.
Proof. exact listen_internal. Qed.
Print Assumptions C05_listen_internal.

(* the sampled releases of the statement *)
Example C05_examples :
  forall orc,
  map (get_protocol (vlt_full orc))
      (map lit ["2.2.0"; "2.3.2"; "2.1.1"; "2.0.0"; "1.5.0"; "1.4.9"; "1.3"; "0.9.1"; "v2.2"; " 2.1 "; "2.10.0"; "3.0"]%string)
  = [Some 4; Some 4; Some 3; Some 2; Some 1; Some 0; Some 0; Some 0; Some 4; Some 3; Some 4; Some 4]%nat.
Proof. exact select_examples. Qed.
Print Assumptions C05_examples.

(* only version reports move the reported version / the active protocol: for EVERY line, state,
   oracle and fault stream, a line that is neither the gateway's own presentation (0;255;0;...)
   nor an internal / stream message of type 2 (I_VERSION in every protocol: a computed fact)
   leaves both exactly as they were — whatever error it ends in *)
Theorem C05_only_version_reports_change_it :
  forall bat vlt now line s,
    (forall m, decode (proto_of (s_w s)) line = DecOk m ->
       ~ (m_child m = 255 /\ m_node m = 0 /\ m_cmd m = 0)%Z
       /\ (m_cmd m = 3 \/ m_cmd m = 4 -> m_type m <> 2)%Z) ->
    (w_pv (s_w (snd (listen_step bat vlt now line s))), w_proto (s_w (snd (listen_step bat vlt now line s))))
    = (w_pv (s_w s), w_proto (s_w s)).
Proof.
  intros bat vlt now line s H. apply (vs_listen_step bat vlt now line s).
  intros m E. destruct (H m E) as [H1 H2]. split; [exact H1|].
  intros K. apply type_not_2_not_version. exact (H2 K).
Qed.
Print Assumptions C05_only_version_reports_change_it.

(* ... and version reports DO move them, whatever the registry holds (the positive half): for every
   protocol, state, oracle and fault stream, an I_VERSION line whose payload selects protocol i
   leaves the gateway with that reported version and protocol i, is yielded, writes nothing and
   touches neither registry nor buffers *)
Theorem C05_version_reply_step :
  forall bat vlt now w faults line m i,
    (w_proto w < 5)%nat ->
    decode (proto_of w) line = DecOk m -> m_cmd m = 3%Z -> m_type m = 2%Z ->
    get_protocol vlt (m_payload m) = Some i ->
    let r := recv bat vlt now w faults line in
    w_pv (fst (fst r)) = Some (m_payload m) /\ w_proto (fst (fst r)) = i
    /\ snd (fst r) = Yield m /\ snd r = []
    /\ w_nodes (fst (fst r)) = w_nodes w /\ w_set (fst (fst r)) = w_set w /\ w_internal (fst (fst r)) = w_internal w.
Proof. exact version_reply_step. Qed.
Print Assumptions C05_version_reply_step.

(* a version report that is rejected changes neither (and nothing in the registry) *)
Theorem C05_version_reply_rejected :
  forall bat vlt now w faults line m,
    (w_proto w < 5)%nat ->
    decode (proto_of w) line = DecOk m -> m_cmd m = 3%Z -> m_type m = 2%Z ->
    get_protocol vlt (m_payload m) = None ->
    let r := recv bat vlt now w faults line in
    w_pv (fst (fst r)) = w_pv w /\ w_proto (fst (fst r)) = w_proto w /\ w_nodes (fst (fst r)) = w_nodes w
    /\ (snd (fst r) = Raise EInvalidMessage \/ (w_pv w = None /\ snd (fst r) = Raise ETransport)).
Proof. exact version_reply_rejected. Qed.
Print Assumptions C05_version_reply_rejected.

(* the gateway's own presentation (0;255;0;...) through the 1.x / 2.x wrappers of the
   presentation handler: the presented version is applied whatever node 0's record said before
   (a controller restarted on a persistence file has node 0 with the version of the last session) *)
Theorem C05_gateway_presentation_step :
  forall bat vlt now line s m i,
    (w_proto (s_w s) < 5)%nat ->
    decode (proto_of (s_w s)) line = DecOk m -> m_cmd m = 0%Z -> m_child m = 255%Z -> m_node m = 0%Z ->
    get_protocol vlt (m_payload m) = Some i ->
    pvp_of (listen_step bat vlt now line s) = (Some (m_payload m), i).
Proof. exact gateway_presentation_step. Qed.
Print Assumptions C05_gateway_presentation_step.

Example C05_restart_example :
  let bat := fun _ : list N => @None Z in
  let vlt := vlt_full (fun _ _ => None) in
  let w := w_put_node (init_world true) (mk_node 0 18 (lit "2.2.0") [] [] 0 0 false false) in
  let r := recv bat vlt 0 w [] (lit "0;255;0;0;18;2.2.0") in
  (w_pv w, w_proto w) = (None, 0%nat)
  /\ (w_pv (fst (fst r)), w_proto (fst (fst r))) = (Some (lit "2.2.0"), 4%nat).
Proof. vm_compute. split; reflexivity. Qed.
