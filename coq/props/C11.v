(* C11 — node ids handed out are fresh, in range, never handed out twice. *)
From Coq Require Import List NArith ZArith String.
From AMS Require Import Models GatewayFacts GatewayInv GatewaySteps GatewayAlloc.
Import ListNotations.
Local Open Scope Z_scope.

(* the allocation step, for every state satisfying the invariant, every protocol,
   every fault stream: with nxt = 1 on an empty registry, max key + 1 otherwise —
   if nxt <= 254 it is in 1..254, not a registered id, registered as a placeholder
   (also when the answer's write fails), and the only id response attempted is
   addressed like the request and carries nxt; if nxt > 254 the step fails with
   the too-many-nodes error (or the transport error of a failing version query),
   the registry is unchanged, no id response is attempted, and an id >= 254 is
   registered, i.e. no id above the highest registered one is free *)
Theorem C11_alloc :
  forall bat vlt now w faults line m,
    Inv vlt w -> decode (proto_of w) line = DecOk m -> m_cmd m = 3 -> m_type m = 3 ->
    let ks := keys w in
    let nxt := next_id ks in
    let r := recv bat vlt now w faults line in
    let w' := fst (fst r) in let out := snd (fst r) in let ws := snd r in
    (nxt <= 254 ->
       1 <= nxt /\ ~ In nxt ks
       /\ w_nodes w' = dset Z.eqb (w_nodes w) nxt (new_node nxt 17 default_protocol_version)
       /\ map we_line ws = encode (id_response m nxt) :: version_query w
       /\ (out = Yield m \/ out = Raise ETransport))
    /\ (254 < nxt ->
       (out = Raise ETooManyNodes \/ (w_pv w = None /\ hd false faults = true /\ out = Raise ETransport))
       /\ w_nodes w' = w_nodes w /\ map we_line ws = version_query w
       /\ exists k, In k ks /\ 254 <= k).
Proof. exact id_request_step. Qed.
Print Assumptions C11_alloc.

(* registered ids only ever grow, in every history: an id handed out (hence
   registered) is a key of every later registry, so a later allocation — which
   is not a key at that time — differs from it *)
Theorem C11_keys_grow :
  forall bat vlt now ops w, Inv vlt w -> Forall op_ok ops ->
    Inv vlt (run_ops bat vlt now w ops) /\ incl (keys w) (keys (run_ops bat vlt now w ops)).
Proof. intros bat vlt now ops w. exact (run_ops_inv bat vlt now ops w). Qed.
Print Assumptions C11_keys_grow.

Theorem C11_next_fresh : forall ks, ~ In (next_id ks) ks.
Proof. exact next_id_fresh. Qed.
Print Assumptions C11_next_fresh.

(* never handed out twice, over whole histories: take any history (receives, sends,
   reconnects, any fault streams) from any state satisfying the invariant; if the id
   request l1 received after ops1 is answered with a (handed_out: by C11_alloc exactly
   the payload of the one id response attempted) and, after any further operations
   ops2, the id request l2 is answered with b, then a <> b, a is still registered
   then, and both are registered afterwards — also when the answers' writes fail *)
Theorem C11_never_twice :
  forall bat vlt now w ops1 l1 f1 ops2 l2 f2 a b,
    Inv vlt w -> Forall op_ok ops1 -> Forall op_ok ops2 ->
    let w1 := run_ops bat vlt now w ops1 in
    let w2 := run_ops bat vlt now (world_after bat vlt now w1 (ORecv l1 f1)) ops2 in
    handed_out w1 l1 = Some a -> handed_out w2 l2 = Some b ->
    a <> b /\ In a (keys w2) /\ In a (keys (world_after bat vlt now w2 (ORecv l2 f2)))
    /\ In b (keys (world_after bat vlt now w2 (ORecv l2 f2))).
Proof. exact never_twice. Qed.
Print Assumptions C11_never_twice.

(* the hypotheses are met by a concrete history: two id requests with a failing answer,
   a presentation of the first id and a reconnect in between get 1 and 2 *)
Example C11_never_twice_example :
  let w := fst (fst (recv (fun _ => Some 5) (vlt_full (fun _ _ => None)) 0 (init_world true) [] (lit "0;255;3;0;2;2.1"))) in
  let ops2 := [ORecv (lit "1;255;0;0;17;2.1") []; OReconnect; ORecv (lit "9;1;1;0;2;1") [true]] in
  let w2 := run_ops (fun _ => Some 5) (vlt_full (fun _ _ => None)) 0
              (world_after (fun _ => Some 5) (vlt_full (fun _ _ => None)) 0 w (ORecv (lit "255;255;3;0;3;") [true])) ops2 in
  handed_out w (lit "255;255;3;0;3;") = Some 1 /\ handed_out w2 (lit "255;255;3;0;3;") = Some 2.
Proof. vm_compute. split; reflexivity. Qed.

(* the id request is type 3 and the answer type 4 of the internal command, in every generated table *)
Theorem C11_tables :
  forallb (fun p => match enum_value_in (pt_internal p) "I_ID_REQUEST", enum_value_in (pt_internal p) "I_ID_RESPONSE" with
                    | Some 3, Some 4 => true | _, _ => false end) protocols = true
  /\ max_node_id = 254.
Proof. split; reflexivity. Qed.
Print Assumptions C11_tables.

Example C11_examples :
  next_id [] = 1 /\ next_id [0; 3; 10] = 11 /\ next_id [1; 254] = 255 /\ next_id [255] = 256
  /\ next_id [5; 4; 3; 2; 1] = 6.
Proof. vm_compute. repeat split. Qed.
