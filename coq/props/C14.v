(* C14 — loading a persistence file fails only with the persistence read error.
   In the model "read error" is the only failure there is (load_registry returns an
   option), so totality is by construction; the theorems pin WHAT is accepted and
   that a failing load registers nothing.  That the implementation raises no other
   exception class on these inputs is decided by the correspondence run. *)
From Coq Require Import List NArith ZArith Bool String.
From AMS Require Import Models GatewayFacts PersistFacts SaveCrash.
Import ListNotations.
Local Open Scope Z_scope.

(* either nothing is registered, or every record of the file is *)
Theorem C14_atomic :
  forall j old,
    load_registry j old = None
    \/ exists l new, j = JObj l /\ load_nodes l [] = Some new /\ load_registry j old = Some (update_all old new).
Proof. exact load_registry_atomic. Qed.
Print Assumptions C14_atomic.

(* only an object all of whose member values are acceptable node records loads *)
Theorem C14_accepts_only :
  forall j old r, load_registry j old = Some r ->
    exists l, j = JObj l /\ Forall (fun kv => load_node (snd kv) <> None) l.
Proof. exact load_registry_accepts. Qed.
Print Assumptions C14_accepts_only.

(* an empty file (read as "{}") loads as an empty registry / leaves the registry as it is *)
Theorem C14_empty_file : forall old, load_registry (JObj []) old = Some old.
Proof. exact load_empty_object. Qed.
Print Assumptions C14_empty_file.

(* whatever the text layer yields, the outcome of a load is a registry or the read error *)
Theorem C14_total :
  forall (parse : text -> option json) t,
    (exists r, load_text parse t = LReg r) \/ load_text parse t = LReadError.
Proof.
  intros parse t. unfold load_text. destruct (parse t) as [j|]; [|right; reflexivity].
  destruct (load_registry j []) as [r|]; [left; exists r; reflexivity|right; reflexivity].
Qed.
Print Assumptions C14_total.

(* wrong shapes, missing / unknown members, out-of-range values are rejected *)
Theorem C14_rejects :
  load_node JNull = None /\ load_node (JInt 5) = None /\ load_node (JArr []) = None
  /\ load_node (JStr []) = None /\ load_node (JObj []) = None
  /\ load_node (JObj [(slit "node_id", JInt 1)]) = None
  /\ load_node (JObj [(slit "node_id", JInt 1); (slit "node_type", JInt 17); (slit "protocol_version", JStr []);
                      (slit "battery_level", JInt 200)]) = None
  /\ load_node (JObj [(slit "node_id", JInt 1); (slit "node_type", JInt 17); (slit "protocol_version", JStr []);
                      (slit "extra", JInt 0)]) = None
  /\ load_node (JObj [(slit "node_id", JInt 256); (slit "node_type", JInt 17); (slit "protocol_version", JStr [])]) = None
  /\ load_node (JObj [(slit "node_id", JBool true); (slit "node_type", JInt 17); (slit "protocol_version", JStr [])]) = None.
Proof. exact load_node_rejects. Qed.
Print Assumptions C14_rejects.

(* everything save writes is accepted (C13) *)
Theorem C14_accepts_saved :
  forall reg, reg_ok reg -> load_registry (dump_registry reg) [] <> None.
Proof. intros reg H. rewrite (load_dump_registry reg H). discriminate. Qed.
Print Assumptions C14_accepts_saved.
