(* C13 — persistence round trip: load reads back every registry that save can write. *)
From Coq Require Import List NArith ZArith Bool String.
From AMS Require Import Models PyStrFacts GatewayFacts GatewayInv GatewaySteps PersistFacts.
Import ListNotations.
Local Open Scope Z_scope.

(* for every registry whose keys are the node ids (0..255, distinct), whose battery
   levels are within 0..100, whose child and value-type keys are distinct and
   printable by CPython (at most 4300 digits): dumping it the way save does and
   loading that value into an empty registry reproduces every node and child with
   all ten attributes, descriptions and values (the application-set reboot flag
   is not persisted).  In particular the file written by save is accepted. *)
Theorem C13_roundtrip :
  forall reg, reg_ok reg ->
    load_registry (dump_registry reg) [] = Some (map (fun kn => (fst kn, clear_reboot (snd kn))) reg).
Proof. exact load_dump_registry. Qed.
Print Assumptions C13_roundtrip.

Theorem C13_node :
  forall n, node_ok n -> load_node (dump_node n) = Some (clear_reboot n).
Proof. exact load_dump_node. Qed.
Print Assumptions C13_node.

(* a file in the legacy pymysensors layout loads to the same node as its native
   equivalent (nodes not flagged sleeping: the legacy layout has no such member),
   with or without null for the gateway type and for empty sketch name / version *)
Theorem C13_legacy :
  forall a b n, node_ok n -> n_sleeping n = false ->
    load_node (legacy_node a b n) = load_node (dump_node n).
Proof. exact load_legacy_node. Qed.
Print Assumptions C13_legacy.

(* the battery level of every node the receive path writes is within the range the
   loader accepts: the only handler that writes it, in closed form (D10) *)
Theorem C13_battery_in_range :
  forall bat vlt now m s n lvl,
    dget Z.eqb (w_nodes (s_w s)) (m_node m) = Some n -> bat (m_payload m) = Some lvl ->
    fst (run_body2 bat vlt now BBattery no_super m s) = inl m -> 0 <= lvl <= 100.
Proof.
  intros bat vlt now m s n lvl Hn Hb. rewrite body_battery, Hn, Hb.
  destruct (Z.leb_spec 0 lvl) as [H0|H0], (Z.leb_spec lvl 100) as [H1|H1]; cbn; intros Hr; try discriminate Hr; split; assumption.
Qed.
Print Assumptions C13_battery_in_range.

(* for EVERY registry the gateway can reach from received messages and send calls
   (any history, any oracle, any fault stream) the round trip holds.  The invariant
   carries: nodes registered under their own id (0..255, unique), battery level
   0..100, unique child / value keys.  The one premise left is that child ids and
   value types print within CPython's 4300-digit int/str limit (int() on the wire
   enforces the same limit; not proved here). *)
Theorem C13_reachable :
  forall bat vlt now metric ops,
    Forall op_ok ops ->
    let reg := w_nodes (run_ops bat vlt now (init_world metric) ops) in
    printable_reg reg ->
    load_registry (dump_registry reg) [] = Some (map (fun kn => (fst kn, clear_reboot (snd kn))) reg).
Proof.
  intros bat vlt now metric ops H reg Hp. apply load_dump_registry.
  destruct (run_ops_inv bat vlt now ops _ (Inv_init vlt metric) H) as [Hi _].
  exact (reachable_reg_ok vlt _ Hi Hp).
Qed.
Print Assumptions C13_reachable.

(* the validators are the ones of the generated NodeSchema descriptor *)
Theorem C13_tables :
  field_validators node_schema "node_id" = [VRange (Some 0) (Some 255) true true]
  /\ field_validators node_schema "battery_level" = [VRange (Some 0) (Some 100) true true]
  /\ map fd_name node_schema = ["node_id"; "node_type"; "protocol_version"; "children"; "sketch_name";
                                "sketch_version"; "battery_level"; "heartbeat"; "sleeping"]%string
  /\ map fd_name child_schema = ["child_id"; "child_type"; "description"; "values"]%string
  /\ map fd_required node_schema = [true; true; true; false; false; false; false; false; false]
  /\ map fd_required child_schema = [true; true; false; false].
Proof. repeat split; reflexivity. Qed.
Print Assumptions C13_tables.

Definition ex_node : node :=
  {| n_id := 5; n_type := 17; n_ver := [50; 46; 48]%N;
     n_children := [(1, {| c_id := 1; c_type := 6; c_desc := [116]%N; c_values := [(0, [50; 48]%N); (-3, [])] |})];
     n_sketch_name := [115]%N; n_sketch_version := []; n_battery := 100; n_heartbeat := 7;
     n_reboot := true; n_sleeping := true |}.

Example C13_example :
  load_registry (dump_registry [(5, ex_node)]) [] = Some [(5, clear_reboot ex_node)]
  /\ load_node (JObj [(slit "node_id", JInt 5); (slit "node_type", JInt 17); (slit "protocol_version", JStr []);
                      (slit "battery_level", JInt 150)]) = None.
Proof. vm_compute. split; reflexivity. Qed.
