(* C16 — gateway context: load on entry, periodic and final save, no leftovers.
   PARTIAL: the theorems are about the two-task transition system of Lifecycle.v
   whose scheduler may pick either task at every suspension point.  Assumed, not
   proved: asyncio's task / cancellation semantics as encoded there; not modelled:
   real threads of the default executor (an orphaned write of a cancelled save
   racing the final save), I/O errors, signal-driven cancellation of the main task,
   wall-clock time (the 15 minute cadence is checked on a virtual clock). *)
From Coq Require Import List NArith ZArith Bool String.
From AMS Require Import Models Lifecycle LifecycleFacts.
From AMS Require Import Mqtt MqttFacts.
Import ListNotations.

(* for EVERY schedule — schedules contain re-entries of the same object (CReenter)
   and cancellations of the owning task while in the body (CCancelOwner), so this
   speaks about every session, not only the first: when the main task has left the
   context — normally, with the body's exception, with the owner's cancellation, with
   disconnect's, or because connect failed — no background
   task is left, the file holds the registry as of exit, the transport was
   disconnected (exactly once, if it had been connected) and the exception that
   leaves is the one that was raised, never CancelledError *)
Theorem C16_exit_clean :
  forall v cs,
    let s := lrun true (linit v) cs in
    l_m s = MDone ->
    (exists c, l_s s = SEnded c)
    /\ l_file s = FHolds (l_reg s)
    /\ l_connected s = false
    /\ l_exc s <> Some ECancelled
    /\ ((l_disc s = 1%nat /\ (l_exc s = None \/ l_exc s = Some EBody \/ l_exc s = Some EDisconnect \/ l_exc s = Some EOwnerCancelled))
        \/ (l_disc s = 0%nat /\ l_exc s = Some EConnect)).
Proof. exact exit_clean. Qed.
Print Assumptions C16_exit_clean.

(* every session has its saver: while connecting and while the body runs a saver
   task exists (so the registry is saved once entered and at every tick, below) *)
Theorem C16_saver_in_every_session :
  forall v cs,
    let s := lrun true (linit v) cs in
    (l_m s = MBody \/ l_m s = MConnect -> saver_alive (l_s s))
    /\ (l_m s = MLoad \/ l_m s = MStart -> l_s s = SNone).
Proof. exact saver_in_every_session. Qed.
Print Assumptions C16_saver_in_every_session.

Theorem C16_entry_save :
  forall s, l_m s = MStart ->
    let s1 := main_step true s true in
    l_s s1 = SCreated /\ l_s (saver_step s1) = SSaving save_steps (l_reg s).
Proof. exact entry_save. Qed.
Print Assumptions C16_entry_save.

Theorem C16_invariant : forall cs s, linv s -> linv (lrun true s cs).
Proof. exact linv_run. Qed.
Print Assumptions C16_invariant.

(* the main task is never stuck waiting for the saver *)
Theorem C16_await_unblocks :
  forall s, linv s -> l_m s = MAwait ->
    (exists c, l_s s = SEnded c) \/ (exists c, l_s (saver_step s) = SEnded c).
Proof. exact await_unblocks. Qed.
Print Assumptions C16_await_unblocks.

(* the periodic save *)
Theorem C16_timer_starts_save :
  forall s, l_s s = SSleeping -> l_cancel s = false ->
    l_s (lstep true s CTimer) = SSaving save_steps (l_reg s).
Proof. exact timer_starts_save. Qed.
Print Assumptions C16_timer_starts_save.

Theorem C16_save_completes :
  forall s v, l_s s = SSaving save_steps v -> l_cancel s = false ->
    let s3 := saver_step (saver_step (saver_step s)) in
    l_s s3 = SSleeping /\ l_file s3 = FHolds v /\ l_saves s3 = S (l_saves s).
Proof. exact save_completes. Qed.
Print Assumptions C16_save_completes.

(* "If connecting fails ... no background task is left behind", for the built-in MQTT
   transport kind (the stream kinds start no task in connect): at every fault position of
   connect — the broker refuses the connection, or any subset of the subscriptions fails —
   a failed connect ends with no receive task and with the broker client's context left as
   often as it was entered; a successful one has the task and every subscription.  (The
   pinned tree left the receive task running when a subscription failed: repaired by
   4fccfdf; the model follows the repaired code and is compared with it in c16.py.) *)
Theorem C16_mqtt_connect_no_leftover :
  forall pre enter_fails sub_faults,
    let r := mqtt_connect pre enter_fails sub_faults mc_init in
    match snd r with
    | ConnOk => mc_task (fst r) = true /\ mc_client (fst r) = true /\ mc_entered (fst r) = 1%Z
                /\ mc_subs (fst r) = subscriptions pre
                /\ enter_fails = false
                /\ forallb negb (firstn (List.length (subscriptions pre)) sub_faults) = true
    | ConnTransportError => mc_task (fst r) = false /\ mc_entered (fst r) = 0%Z
    | ConnRuntimeError => False
    end.
Proof. exact connect_no_leftover. Qed.
Print Assumptions C16_mqtt_connect_no_leftover.

Example C16_mqtt_connect_example :
  snd (mqtt_connect (lit "in") false [false; false; true] mc_init) = ConnTransportError
  /\ snd (mqtt_connect (lit "in") true [] mc_init) = ConnTransportError
  /\ snd (mqtt_connect (lit "in") false [] mc_init) = ConnOk
  /\ List.length (mc_subs (fst (mqtt_connect (lit "in") false [] mc_init))) = 5%nat.
Proof. vm_compute. repeat split. Qed.

(* the original stop() (CancelledError not suppressed: D13a, repaired by e2e0939) violates it *)
Theorem C16_unguarded_refuted :
  exists cs, let s := lrun false (linit 7) cs in
    l_m s = MDone /\ l_exc s = Some ECancelled /\ l_saves s = 0%nat.
Proof. exact unguarded_refuted. Qed.
Print Assumptions C16_unguarded_refuted.

Theorem C16_unguarded_truncated_refuted :
  exists cs, let s := lrun false (linit 7) cs in
    l_m s = MDone /\ l_exc s = Some ECancelled /\ l_file s = FPartial.
Proof. exact unguarded_truncated_refuted. Qed.
Print Assumptions C16_unguarded_truncated_refuted.
