(* C03 — the receive path raises only library errors, whatever arrives on the
   wire, and the gateway stays usable.  Statements only; proofs in theories/. *)
From Coq Require Import List NArith ZArith String.
From AMS Require Import Models GatewayFacts GatewayInv.
Import ListNotations.

(* for every oracle (battery conversion, version comparator, clock), every fault
   stream, every state satisfying the invariant and every line: one listen step
   never ends in a non-library exception, and re-establishes the invariant — also
   when it raises — so every theorem applies again to the next line *)
Theorem C03_recv_no_escape :
  forall bat vlt now w faults line,
    Inv vlt w ->
    ~ is_escape (snd (fst (recv bat vlt now w faults line)))
    /\ Inv vlt (fst (fst (recv bat vlt now w faults line))).
Proof.
  intros bat vlt now w faults line Hi.
  destruct (step_op_inv bat vlt now w (ORecv line faults) Hi I) as [H1 [_ H2]].
  split; [exact H2|exact H1].
Qed.
Print Assumptions C03_recv_no_escape.

(* lifted to every history of received lines and send calls from the initial state *)
Theorem C03_reachable :
  forall bat vlt now metric ops o,
    Forall op_ok ops -> op_ok o ->
    Inv vlt (run_ops bat vlt now (init_world metric) ops)
    /\ ~ is_escape (snd (fst (step_op bat vlt now (run_ops bat vlt now (init_world metric) ops) o))).
Proof.
  intros bat vlt now metric ops o H Ho. split.
  - apply (run_ops_inv bat vlt now ops _ (Inv_init vlt metric) H).
  - apply history_no_escape; assumption.
Qed.
Print Assumptions C03_reachable.

(* the decoder itself never fails with anything but the invalid-message error *)
Theorem C03_decode_total :
  forall i line c, decode (proto_at i) line <> DecEscape c.
Proof. exact decode_never_escapes. Qed.
Print Assumptions C03_decode_total.

(* every handler the generated dispatch tables can reach is one the model gives a meaning to *)
Theorem C03_all_modelled :
  forallb incoming_ok protocols = true /\ forallb names_ok protocols = true
  /\ forallb outgoing_ok protocols = true /\ forallb command_table_ok protocols = true.
Proof. exact (conj tables_ok_incoming (conj tables_ok_names (conj tables_ok_outgoing tables_ok_commands))). Qed.
Print Assumptions C03_all_modelled.

(* non-vacuity: absurd payloads on concrete reachable states *)
Example C03_examples :
  let bat := fun _ : list N => @None Z in
  let vlt := vlt_full (fun _ _ => None) in
  let w0 := init_world true in
  let w1 := fst (fst (recv bat vlt 0%Z w0 [] (lit "1;255;0;0;17;2.0"))) in
  let w2 := fst (fst (recv bat vlt 0%Z w1 [] (lit "0;255;3;0;2;2.2"))) in
  snd (fst (recv bat vlt 0%Z w2 [] (lit "1;255;3;0;0;abc"))) = Raise EInvalidMessage
  /\ snd (fst (recv bat vlt 0%Z w2 [] (lit "1;255;3;0;22;xyz"))) = Raise EInvalidMessage
  /\ snd (fst (recv bat vlt 0%Z w2 [] (lit "0;255;3;0;2;garbage"))) = Raise EInvalidMessage
  /\ w_pv (fst (fst (recv bat vlt 0%Z w2 [] (lit "0;255;3;0;2;garbage")))) = Some (lit "2.2")
  /\ snd (fst (recv bat vlt 0%Z w2 [] (lit "1;2"))) = Raise EInvalidMessage
  /\ snd (fst (recv bat vlt 0%Z w2 [] (lit "0;255;3;0;9;still usable"))) = Yield (mk_msg 0 255 3 0 9 (lit "still usable")).
Proof. vm_compute. repeat split. Qed.
Print Assumptions C03_examples.
