(* C08 — the sleep buffer loses nothing and repeats nothing when writes fail. *)
From Coq Require Import List NArith ZArith String.
From AMS Require Import Models GatewayFacts GatewayInv GatewaySteps GatewaySbuf.
Import ListNotations.
Local Open Scope Z_scope.

(* the release loop in closed form, for every entry list and every fault stream:
   the failure is reported (the transport error), the entries written before it
   are removed, the failing one and all later ones stay, and the write log is the
   attempts in order *)
Theorem C08_flush :
  forall es s,
    Forall (fun e => m_cmd (snd e) = 1) es ->
    let d := delivered es (s_faults s) in
    let r := flush_entries es s in
    fst r = (if Nat.eqb (List.length d) (List.length es) then inl tt else inr ETransport)
    /\ s_w (snd r) = s_w (with_set s (pop_all (w_set (s_w s)) d))
    /\ s_log (snd r) = rev (log_of es (s_faults s)) ++ s_log s.
Proof. exact flush_entries_spec. Qed.
Print Assumptions C08_flush.

(* at the level of a listen step: see C07_wake, which holds for every fault stream *)
Theorem C08_wake_step :
  forall bat vlt now w faults line m n b,
    Inv vlt w -> decode (proto_of w) line = DecOk m -> m_cmd m = 3 ->
    wake_body (w_proto w) (m_type m) = Some b ->
    dget Z.eqb (w_nodes w) (m_node m) = Some n ->
    (b = BHeartbeat20 -> exists hb, py_int (m_payload m) = Some hb) ->
    let es := filter (of_node (m_node m)) (w_set w) in
    let d := delivered es faults in
    let r := recv bat vlt now w faults line in
    snd (fst r) = (if Nat.eqb (List.length d) (List.length es) then Yield m else Raise ETransport)
    /\ snd r = log_of es faults
    /\ w_set (fst (fst r)) = pop_all (w_set w) d
    /\ w_internal (fst (fst r)) = w_internal w
    /\ keys (fst (fst r)) = keys w.
Proof. exact wake_step. Qed.
Print Assumptions C08_wake_step.

(* what was delivered is a prefix of what was parked: nothing is skipped *)
Theorem C08_prefix : forall es faults, exists rest, es = delivered es faults ++ rest.
Proof. exact delivered_prefix. Qed.
Print Assumptions C08_prefix.

(* a delivered entry is gone from the buffer (so it cannot be written again at a
   later wake), an undelivered one is still there *)
Theorem C08_buffer_after :
  forall d b k, NoDup (map fst b) ->
    dget key_eqb (pop_all b d) k
    = if existsb (fun e => key_eqb k (fst e)) d then None else dget key_eqb b k.
Proof. exact pop_all_get. Qed.
Print Assumptions C08_buffer_after.

Theorem C08_attempts :
  forall es faults,
    map we_line (log_of es faults)
    = map (fun e => encode (snd e)) (firstn (S (List.length (delivered es faults))) es)
    /\ map we_line (filter we_ok (log_of es faults)) = map (fun e => encode (snd e)) (delivered es faults).
Proof. intros es faults. exact (conj (log_of_attempts es faults) (log_of_ok es faults)). Qed.
Print Assumptions C08_attempts.

(* at the level of the gateway, for every wake (any fault stream): a parked command that
   is not in the delivered prefix — the one whose write failed, the later ones of that
   node, everything parked for other nodes — is still parked under its key, unchanged.
   With C07_parked_history (it stays parked through any history that has no wake of its
   node and no send replacing it) and C07_parked_released (at the next fault-free wake
   it is written as parked and removed): written exactly once, later *)
Theorem C08_undelivered_stay :
  forall bat vlt now w faults line m n b k pm,
    Inv vlt w -> decode (proto_of w) line = DecOk m -> m_cmd m = 3 ->
    wake_body (w_proto w) (m_type m) = Some b ->
    dget Z.eqb (w_nodes w) (m_node m) = Some n ->
    (b = BHeartbeat20 -> exists hb, py_int (m_payload m) = Some hb) ->
    dget key_eqb (w_set w) k = Some pm ->
    ~ In (k, pm) (delivered (filter (of_node (m_node m)) (w_set w)) faults) ->
    dget key_eqb (w_set (fst (fst (recv bat vlt now w faults line)))) k = Some pm.
Proof. exact undelivered_stay. Qed.
Print Assumptions C08_undelivered_stay.

(* non-vacuity: three parked commands, the second write fails, then a clean wake *)
Example C08_example :
  let bat := fun _ : list N => @None Z in
  let vlt := vlt_full (fun _ _ => None) in
  let w0 := fst (fst (recv bat vlt 0 (init_world true) [] (lit "0;255;3;0;2;2.0"))) in
  let w1 := w_put_node w0 (mk_node 1 17 (lit "2.0") [] [] 0 0 false true) in
  let w2 := fst (fst (send_op w1 [] (mk_msg 1 0 1 0 2 (lit "a")) true)) in
  let w3 := fst (fst (send_op w2 [] (mk_msg 1 1 1 0 2 (lit "b")) true)) in
  let w4 := fst (fst (send_op w3 [] (mk_msg 1 0 1 0 3 (lit "c")) true)) in
  let r1 := recv bat vlt 0 w4 [false; true] (lit "1;255;3;0;22;0") in
  let r2 := recv bat vlt 0 (fst (fst r1)) [] (lit "1;255;3;0;22;0") in
  snd (fst r1) = Raise ETransport
  /\ map we_ok (snd r1) = [true; false]
  /\ map fst (w_set (fst (fst r1))) = [(1, 1, 2); (1, 0, 3)]
  /\ map we_line (snd r2) = [lit "1;1;1;0;2;b" ++ [10%N]; lit "1;0;1;0;3;c" ++ [10%N]]
  /\ w_set (fst (fst r2)) = [].
Proof. vm_compute. repeat split. Qed.
