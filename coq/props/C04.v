(* C04 — the registry is a faithful record of what the network presented and reported. *)
From Coq Require Import List NArith ZArith Bool String.
From AMS Require Import Models Codec GatewayFacts GatewayInv GatewaySteps GatewayReg GatewayRegSpec.
Import ListNotations.
Local Open Scope Z_scope.

(* Each registry-changing handler in closed form.  A message referring to a node
   or child that is not registered fails with the error naming that node / child
   and returns the state it was given (nothing changes); otherwise exactly the
   reported attribute changes. *)

Theorem C04_set :
  forall bat vlt now m s,
    run_body1 bat vlt now BSet14 no_super m s =
    match dget Z.eqb (w_nodes (s_w s)) (m_node m) with
    | None => (inr (EMissingNode (m_node m)), s)
    | Some n =>
        if dmem Z.eqb (n_children n) (m_child m) then
          let s1 := with_nodes s (dset Z.eqb (w_nodes (s_w s)) (m_node m)
                                    (set_child_value n (m_child m) (m_type m) (m_payload m))) in
          if n_reboot n then reply m (mk_msg (m_node m) 255 3 0 13 []) s1 else (inl m, s1)
        else (inr (EMissingChild (m_child m)), s)
    end.
Proof. exact body_set. Qed.
Print Assumptions C04_set.

Theorem C04_child_presentation :
  forall bat vlt now m s, m_child m <> 255 ->
    run_body1 bat vlt now BPresentation14 no_super m s =
    match dget Z.eqb (w_nodes (s_w s)) (m_node m) with
    | None => (inr (EMissingNode (m_node m)), s)
    | Some n =>
        (inl m, with_nodes s (dset Z.eqb (w_nodes (s_w s)) (m_node m)
           {| n_id := n_id n; n_type := n_type n; n_ver := n_ver n;
              n_children := dset Z.eqb (n_children n) (m_child m)
                 {| c_id := m_child m; c_type := m_type m; c_desc := m_payload m; c_values := [] |};
              n_sketch_name := n_sketch_name n; n_sketch_version := n_sketch_version n;
              n_battery := n_battery n; n_heartbeat := n_heartbeat n;
              n_reboot := n_reboot n; n_sleeping := n_sleeping n |}))
    end.
Proof. exact body_presentation_child. Qed.
Print Assumptions C04_child_presentation.

Theorem C04_node_presentation :
  forall bat vlt now m s, m_child m = 255 -> m_node m <> 0 ->
    run_body1 bat vlt now BPresentation14 no_super m s =
    (inl m, with_nodes s (dset Z.eqb (w_nodes (s_w s)) (m_node m) (new_node (m_node m) (m_type m) (m_payload m)))).
Proof. exact body_presentation_node. Qed.
Print Assumptions C04_node_presentation.

Theorem C04_battery :
  forall bat vlt now m s,
    run_body2 bat vlt now BBattery no_super m s =
    match dget Z.eqb (w_nodes (s_w s)) (m_node m) with
    | None => (inr (EMissingNode (m_node m)), s)
    | Some n =>
        match bat (m_payload m) with
        | Some lvl =>
            if (0 <=? lvl) && (lvl <=? 100) then
              (inl m, with_nodes s (dset Z.eqb (w_nodes (s_w s)) (m_node m)
                 {| n_id := n_id n; n_type := n_type n; n_ver := n_ver n; n_children := n_children n;
                    n_sketch_name := n_sketch_name n; n_sketch_version := n_sketch_version n;
                    n_battery := lvl; n_heartbeat := n_heartbeat n; n_reboot := n_reboot n;
                    n_sleeping := n_sleeping n |}))
            else (inr EInvalidMessage, s)
        | None => (inr EInvalidMessage, s)
        end
    end.
Proof. exact body_battery. Qed.
Print Assumptions C04_battery.

Theorem C04_req_changes_nothing :
  forall bat vlt now m s,
    run_body1 bat vlt now BReq14 no_super m s =
    match dget Z.eqb (w_nodes (s_w s)) (m_node m) with
    | None => (inr (EMissingNode (m_node m)), s)
    | Some n =>
        match dget Z.eqb (n_children n) (m_child m) with
        | None => (inr (EMissingChild (m_child m)), s)
        | Some c =>
            match dget Z.eqb (c_values c) (m_type m) with
            | None => (inl m, s)
            | Some v => reply m (mk_msg (m_node m) (m_child m) 1 0 (m_type m) v) s
            end
        end
    end.
Proof. exact body_req. Qed.
Print Assumptions C04_req_changes_nothing.

(* heartbeat (2.0/2.1) and pre-sleep (2.2): the node attribute, then the release *)
Theorem C04_heartbeat20 :
  forall bat vlt now m s,
    run_body2 bat vlt now BHeartbeat20 no_super m s =
    match dget Z.eqb (w_nodes (s_w s)) (m_node m) with
    | None => (inr (EMissingNode (m_node m)), s)
    | Some n =>
        match py_int (m_payload m) with
        | None => (inr EInvalidMessage, s)
        | Some hb =>
            release m (with_nodes s (dset Z.eqb (w_nodes (s_w s)) (m_node m) (node_woken n (Some hb))))
                    (filter (of_node (m_node m)) (w_set (s_w s)))
        end
    end.
Proof. exact body_heartbeat20. Qed.
Print Assumptions C04_heartbeat20.

(* placeholder for every id handed out: C11_alloc.  In every history the registry
   keeps its shape invariants and registered ids are never lost *)
Theorem C04_history :
  forall bat vlt now metric ops,
    Forall op_ok ops ->
    Inv vlt (run_ops bat vlt now (init_world metric) ops).
Proof.
  intros bat vlt now metric ops H.
  apply (run_ops_inv bat vlt now ops _ (Inv_init vlt metric) H).
Qed.
Print Assumptions C04_history.

(* in every reachable state every node is registered under its own id, its battery
   level is a percentage, and child ids / value types are unique keys *)
Theorem C04_nodes_well_formed :
  forall bat vlt now metric ops,
    Forall op_ok ops ->
    Forall (fun kn => node_inv (fst kn) (snd kn)) (w_nodes (run_ops bat vlt now (init_world metric) ops)).
Proof.
  intros bat vlt now metric ops H.
  destruct (run_ops_inv bat vlt now ops _ (Inv_init vlt metric) H) as [Hi _]. exact (inv_nodes _ _ Hi).
Qed.
Print Assumptions C04_nodes_well_formed.

(* "what must not change": for every line, state, oracle and fault stream, one
   listen step leaves the record of every node other than the sender — and other
   than the id an id request hands out — exactly as it was *)
Theorem C04_other_nodes_untouched :
  forall bat vlt now line s k,
    (forall m, decode (proto_of (s_w s)) line = DecOk m -> k <> m_node m) ->
    k <> next_id (keys (s_w s)) ->
    dget Z.eqb (w_nodes (s_w (snd (listen_step bat vlt now line s)))) k = dget Z.eqb (w_nodes (s_w s)) k.
Proof. exact rg_listen_step. Qed.
Print Assumptions C04_other_nodes_untouched.

(* ... and over every history (commands sent by the application never change a
   record at all) *)
Theorem C04_untouched_history :
  forall bat vlt now k ops w,
    untouched bat vlt now k w ops ->
    dget Z.eqb (w_nodes (run_ops bat vlt now w ops)) k = dget Z.eqb (w_nodes w) k.
Proof. exact untouched_history. Qed.
Print Assumptions C04_untouched_history.

(* ---------- END TO END for one listen step, under every protocol ---------- *)

(* the registry after a received set line — whatever the protocol (1.4 .. 2.2, the 2.x wrapper and
   marker layers included), the version state, the reboot flag, the fault stream: the value is
   recorded under (child, type) iff node and child are registered, and nothing else changes *)
Theorem C04_set_step :
  forall bat vlt now line s m,
    decode (proto_of (s_w s)) line = DecOk m -> m_cmd m = 1 ->
    w_nodes (s_w (snd (listen_step bat vlt now line s))) =
    match dget Z.eqb (w_nodes (s_w s)) (m_node m) with
    | None => w_nodes (s_w s)
    | Some n =>
        if dmem Z.eqb (n_children n) (m_child m)
        then dset Z.eqb (w_nodes (s_w s)) (m_node m) (set_child_value n (m_child m) (m_type m) (m_payload m))
        else w_nodes (s_w s)
    end.
Proof. exact set_step_nodes. Qed.
Print Assumptions C04_set_step.

Theorem C04_req_step :
  forall bat vlt now line s m,
    decode (proto_of (s_w s)) line = DecOk m -> m_cmd m = 2 ->
    w_nodes (s_w (snd (listen_step bat vlt now line s))) = w_nodes (s_w s).
Proof. exact req_step_nodes. Qed.
Print Assumptions C04_req_step.

Theorem C04_child_presentation_step :
  forall bat vlt now line s m,
    decode (proto_of (s_w s)) line = DecOk m -> m_cmd m = 0 -> m_child m <> 255 ->
    w_nodes (s_w (snd (listen_step bat vlt now line s))) =
    match dget Z.eqb (w_nodes (s_w s)) (m_node m) with
    | None => w_nodes (s_w s)
    | Some n =>
        dset Z.eqb (w_nodes (s_w s)) (m_node m)
          {| n_id := n_id n; n_type := n_type n; n_ver := n_ver n;
             n_children := dset Z.eqb (n_children n) (m_child m)
                {| c_id := m_child m; c_type := m_type m; c_desc := m_payload m; c_values := [] |};
             n_sketch_name := n_sketch_name n; n_sketch_version := n_sketch_version n;
             n_battery := n_battery n; n_heartbeat := n_heartbeat n;
             n_reboot := n_reboot n; n_sleeping := n_sleeping n |}
    end.
Proof. exact child_presentation_step_nodes. Qed.
Print Assumptions C04_child_presentation_step.

Theorem C04_node_presentation_step :
  forall bat vlt now line s m,
    decode (proto_of (s_w s)) line = DecOk m -> m_cmd m = 0 -> m_child m = 255 -> m_node m <> 0 ->
    w_nodes (s_w (snd (listen_step bat vlt now line s))) =
    dset Z.eqb (w_nodes (s_w s)) (m_node m) (new_node (m_node m) (m_type m) (m_payload m)).
Proof. exact node_presentation_step_nodes. Qed.
Print Assumptions C04_node_presentation_step.

(* battery level (0), sketch name (11), sketch version (12): the registry after the line is the
   registry after the handler body of C04_battery / the sketch handlers, under every protocol *)
Theorem C04_report_step :
  forall bat vlt now line s m b,
    decode (proto_of (s_w s)) line = DecOk m -> m_cmd m = 3 -> report_body (m_type m) = Some b ->
    w_nodes (s_w (snd (listen_step bat vlt now line s))) = w_nodes (s_w (snd (run_body2 bat vlt now b no_super m s))).
Proof. exact internal_report_nodes. Qed.
Print Assumptions C04_report_step.

(* the 2.x node reports: heartbeat response (22; the 2.0 handler under 2.0 / 2.1 — C04_heartbeat20 —
   the 2.2 handler under 2.2), pre-sleep notification (32 under 2.2), discover response (21): the
   registry after the line is the registry after the handler body the tables dispatch it to *)
Theorem C04_wake_report_step :
  forall bat vlt now line s m b,
    decode (proto_of (s_w s)) line = DecOk m -> m_cmd m = 3 ->
    wake_report_body (w_proto (s_w s)) (m_type m) = Some b ->
    w_nodes (s_w (snd (listen_step bat vlt now line s))) = w_nodes (s_w (snd (run_body2 bat vlt now b no_super m s))).
Proof. exact wake_report_nodes. Qed.
Print Assumptions C04_wake_report_step.

(* which (class, method) pair serves which handler name: the bodies above are the
   ones the generated dispatch tables reach *)
Theorem C04_tables :
  forallb incoming_ok protocols = true
  /\ body_of "protocol_14" "handle_set" = Some BSet14
  /\ body_of "protocol_14" "handle_presentation" = Some BPresentation14
  /\ body_of "protocol_14" "handle_i_battery_level" = Some BBattery.
Proof. split; [exact tables_ok_incoming|repeat split]. Qed.
Print Assumptions C04_tables.

Definition ex_bat : list N -> option Z := fun _ => Some 55.
Definition ex_vlt := vlt_full (fun _ _ => None).
Definition ex_step (w : world) (l : string) := recv ex_bat ex_vlt 0 w [] (lit l).
Definition ex_lit (s : string) : list N := lit s.

(* end to end on concrete states (the D6 input included) *)
Example C04_examples :
  let w1 := fst (fst (ex_step (init_world true) "5;255;0;0;17;2.0")) in
  let w2 := fst (fst (ex_step w1 "5;1;0;0;6;temp")) in
  let w3 := fst (fst (ex_step w2 "5;1;1;0;0;20.5")) in
  let w4 := fst (fst (ex_step w3 "5;255;3;0;0;55")) in
  snd (fst (ex_step w3 "5;7;1;0;0;20")) = Raise (EMissingChild 7)
  /\ w_nodes (fst (fst (ex_step w3 "5;7;1;0;0;20"))) = w_nodes w3
  /\ snd (fst (ex_step w3 "9;1;1;0;0;20")) = Raise (EMissingNode 9)
  /\ show_world w4 = ex_lit "pv=None proto=3:1.4 metric=1 nodes= k5{n 5 17 3:2.0 0: 0: 55 0 0 0 k1{c 1 6 4:temp v0=4:20.5}} ibuf= sbuf="
  /\ map (fun kn => List.length (n_children (snd kn))) (w_nodes (fst (fst (ex_step w4 "5;255;0;0;17;2.1")))) = [0%nat].
Proof. vm_compute. repeat split. Qed.

(* non-vacuity of C04_untouched_history: node 5 is untouched by traffic of node 6 *)
Example C04_untouched_example :
  let w1 := fst (fst (ex_step (init_world true) "5;255;0;0;17;2.0")) in
  untouched ex_bat ex_vlt 0 5 w1
    [ORecv (lit "6;255;0;0;17;2.0") []; ORecv (lit "6;1;0;0;6;t") []; OSend (mk_msg 5 1 1 0 0 (lit "1")) true []].
Proof.
  cbn [untouched]. split; [|split; [|split; [intros []|exact I]]].
  all: vm_compute; intros [[m [E K]]|K]; [injection E as <-; vm_compute in K; discriminate K|discriminate K].
Qed.
