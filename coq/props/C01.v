From Coq Require Import List NArith ZArith.
From AMS Require Import Models.
Import ListNotations.
Example C01_example :
  decode proto_2_2 (encode {| m_node := 1; m_child := 2; m_cmd := 1; m_ack := 0; m_type := 49;
     m_payload := [49;59;50]%N |}) =
  DecOk {| m_node := 1; m_child := 2; m_cmd := 1; m_ack := 0; m_type := 49; m_payload := [49;59;50]%N |}.
Proof. vm_compute. reflexivity. Qed.
Print Assumptions C01_example.
