(* C01 — wire codec round trip.  Statements only; proofs are in theories/. *)
From Coq Require Import List NArith ZArith.
From AMS Require Import Models PyStrFacts CodecFacts.
Import ListNotations.
Local Open Scope Z_scope.

(* encoding a well-formed message and decoding the result yields the same
   message, under every supported protocol, for every payload without trailing
   whitespace — payloads containing ';' included *)
Theorem C01_decode_encode :
  forall p m, In p protocols -> wf_msg m -> digits_ok (m_type m) ->
              rstrip (m_payload m) = m_payload m ->
              decode p (encode m) = DecOk m.
Proof. exact decode_encode. Qed.
Print Assumptions C01_decode_encode.

(* the encoded form is 'node;child;command;ack;type;payload' + one newline and,
   for a payload free of line terminators, contains no other line terminator *)
Theorem C01_encode_one_line :
  forall m, no_linebreak (m_payload m) ->
  exists body,
    encode m = body ++ [10%N]
    /\ body = join delimiter (num_fields m ++ [m_payload m])
    /\ no_linebreak body.
Proof. exact encode_one_line. Qed.
Print Assumptions C01_encode_one_line.

(* decoding a well-formed line whose numeric fields are plain decimal and
   re-encoding it reproduces the line up to trailing whitespace *)
Theorem C01_encode_decode :
  forall p line m, In p protocols -> decode p line = DecOk m ->
  (exists f1 f2 f3 f4 f5 rest,
      rstrip line = join delimiter [f1; f2; f3; f4; f5; rest]
      /\ Forall (no_sep delimiter) [f1; f2; f3; f4; f5]
      /\ Forall plain_decimal [f1; f2; f3; f4; f5]) ->
  encode m = rstrip line ++ [10%N].
Proof. exact encode_decode. Qed.
Print Assumptions C01_encode_decode.

(* the five protocols the statement quantifies over are exactly the generated ones *)
Theorem C01_five_protocols : length protocols = 5%nat.
Proof. exact tables_ok_five. Qed.
Print Assumptions C01_five_protocols.

(* non-vacuity: concrete messages meeting the hypotheses *)
Definition ex_position : msg :=
  {| m_node := 1; m_child := 2; m_cmd := 1; m_ack := 0; m_type := 49;
     m_payload := [49; 46; 48; 59; 50; 46; 48; 59; 51]%N |}.   (* "1.0;2.0;3" *)
Definition ex_idreq : msg :=
  {| m_node := 255; m_child := 7; m_cmd := 3; m_ack := 1; m_type := 3; m_payload := [] |}.

Example C01_hypotheses_satisfiable :
  wf_msg ex_position /\ digits_ok (m_type ex_position)
  /\ rstrip (m_payload ex_position) = m_payload ex_position
  /\ wf_msg ex_idreq /\ digits_ok (m_type ex_idreq)
  /\ decode proto_2_2 (encode ex_position) = DecOk ex_position
  /\ decode proto_1_4 (encode ex_idreq) = DecOk ex_idreq.
Proof.
  split; [apply wf_fields_b_spec; vm_compute; reflexivity|].
  split; [apply digits_ok_b_spec; vm_compute; reflexivity|].
  split; [vm_compute; reflexivity|].
  split; [apply wf_fields_b_spec; vm_compute; reflexivity|].
  split; [apply digits_ok_b_spec; vm_compute; reflexivity|].
  split; vm_compute; reflexivity.
Qed.
Print Assumptions C01_hypotheses_satisfiable.
