(* C07 — sleep buffer: commands for a sleeping node wait for its wake, then go once. *)
From Coq Require Import List NArith ZArith String.
From AMS Require Import Models Codec GatewayFacts GatewayInv GatewaySteps GatewayTrace GatewaySbuf.
Import ListNotations.
Local Open Scope Z_scope.

(* Gateway.send in closed form, resolved against the generated tables: a set
   command to a registered sleeping node with buffering allowed is stored under
   (node, child, type) — replacing an older one — and nothing is written; every
   other set command is written at once, unchanged (and supersedes a parked one) *)
Theorem C07_send : forall m buffered s, send m buffered s = send_resolved m buffered s.
Proof. exact send_eq. Qed.
Print Assumptions C07_send.

(* the wake step (heartbeat response under 2.0/2.1, pre-sleep notification under
   2.2, from a registered node), for every fault stream: the writes are the
   node's parked commands in buffer order up to the first failing write, exactly
   the successfully written ones leave the buffer, everything else stays *)
Theorem C07_wake :
  forall bat vlt now w faults line m n b,
    Inv vlt w -> decode (proto_of w) line = DecOk m -> m_cmd m = 3 ->
    wake_body (w_proto w) (m_type m) = Some b ->
    dget Z.eqb (w_nodes w) (m_node m) = Some n ->
    (b = BHeartbeat20 -> exists hb, py_int (m_payload m) = Some hb) ->
    let es := filter (of_node (m_node m)) (w_set w) in
    let d := delivered es faults in
    let r := recv bat vlt now w faults line in
    snd (fst r) = (if Nat.eqb (List.length d) (List.length es) then Yield m else Raise ETransport)
    /\ snd r = log_of es faults
    /\ w_set (fst (fst r)) = pop_all (w_set w) d
    /\ w_internal (fst (fst r)) = w_internal w
    /\ keys (fst (fst r)) = keys w.
Proof. exact wake_step. Qed.
Print Assumptions C07_wake.

(* without faults everything parked for the node is delivered ... *)
Theorem C07_all_delivered :
  forall es faults, Forall (fun b => b = false) faults -> delivered es faults = es.
Proof. exact delivered_nofault. Qed.
Print Assumptions C07_all_delivered.

(* ... each once, as the stored (last parked) message, and afterwards no entry of
   that node remains while the entries of every other node are untouched *)
Theorem C07_only_that_node :
  forall b n, NoDup (map fst b) -> Forall (fun e => fst e = msg_key (snd e)) b ->
    forall e, In e (pop_all b (filter (of_node n) b)) <-> In e b /\ of_node n e = false.
Proof. exact pop_all_node. Qed.
Print Assumptions C07_only_that_node.

Theorem C07_successful_writes :
  forall es faults,
    map we_line (filter we_ok (log_of es faults)) = map (fun e => encode (snd e)) (delivered es faults).
Proof. exact log_of_ok. Qed.
Print Assumptions C07_successful_writes.

(* a listen step never adds an entry to the sleep buffer: what is released is what was parked by send *)
Theorem C07_recv_never_parks :
  forall bat vlt now line s, Inv vlt (s_w s) ->
    incl (w_set (s_w (snd (listen_step bat vlt now line s)))) (w_set (s_w s)).
Proof.
  intros bat vlt now line s Hi.
  destruct (good_listen_step bat vlt now line s Hi) as [_ [[_ [_ [H _]]] _]]. exact H.
Qed.
Print Assumptions C07_recv_never_parks.

(* no other received message writes or removes a parked command: for every line,
   state, oracle and fault stream, unless the generated dispatch tables put a
   releasing handler (heartbeat response of 2.0/2.1, pre-sleep of 2.2) on the path
   of this message, the sleep buffer after the step is the sleep buffer before it *)
Theorem C07_nonwake :
  forall bat vlt now line s m,
    Inv vlt (s_w s) -> decode (proto_of (s_w s)) line = DecOk m ->
    a_release (listen_allow (w_proto (s_w s)) m) = false ->
    w_set (s_w (snd (listen_step bat vlt now line s))) = w_set (s_w s).
Proof. exact nonwake_keeps_buffer. Qed.
Print Assumptions C07_nonwake.

Theorem C07_release_only_at_wake :
  map releasing_handlers protocols
  = [[]; []; ["handle_i_heartbeat_response"]; ["handle_i_heartbeat_response"];
     ["handle_i_pre_sleep_notification"]]%string.
Proof. exact tables_release_only_at_wake. Qed.
Print Assumptions C07_release_only_at_wake.

(* the wake signals are the ones the generated tables name *)
Theorem C07_tables :
  map (fun p => (enum_lname_of (pt_internal p) 22, enum_lname_of (pt_internal p) 32)) protocols
  = [(None, None); (None, None);
     (Some "i_heartbeat_response", None); (Some "i_heartbeat_response", None);
     (Some "i_heartbeat_response", Some "i_pre_sleep_notification")]%string.
Proof. vm_compute. reflexivity. Qed.

(* "only that node's commands are released": for EVERY line, state, oracle and fault stream
   the commands parked for nodes other than the sender are exactly as they were *)
Theorem C07_other_nodes_parked_untouched :
  forall bat vlt now nd line s k,
    keys_ok (s_w s) ->
    (forall m, decode (proto_of (s_w s)) line = DecOk m -> m_node m = nd) ->
    node_of k <> nd ->
    dget key_eqb (w_set (s_w (snd (listen_step bat vlt now line s)))) k = dget key_eqb (w_set (s_w s)) k.
Proof. exact sk_listen_step. Qed.
Print Assumptions C07_other_nodes_parked_untouched.

(* over whole histories: a parked command stays parked, unchanged, through every operation
   that is neither a wake signal of its node (as the tables of the protocol active at that
   moment define it) nor a set command of the application for its key: lines of other nodes
   with any faults, other lines of its own node, rejected lines, other sends, reconnects *)
Theorem C07_parked_history :
  forall bat vlt now k ops w,
    Inv vlt w -> Forall op_ok ops -> kept bat vlt now k w ops ->
    dget key_eqb (w_set (run_ops bat vlt now w ops)) k = dget key_eqb (w_set w) k.
Proof. exact parked_history. Qed.
Print Assumptions C07_parked_history.

(* ... and at the next fault-free wake of its node it is written as parked and leaves the buffer *)
Theorem C07_parked_released :
  forall bat vlt now w faults line m n b k pm,
    Inv vlt w -> decode (proto_of w) line = DecOk m -> m_cmd m = 3 ->
    wake_body (w_proto w) (m_type m) = Some b ->
    dget Z.eqb (w_nodes w) (m_node m) = Some n ->
    (b = BHeartbeat20 -> exists hb, py_int (m_payload m) = Some hb) ->
    Forall (fun x => x = false) faults ->
    dget key_eqb (w_set w) k = Some pm -> node_of k = m_node m ->
    let r := recv bat vlt now w faults line in
    In {| we_line := encode pm; we_ok := true; we_msg := pm |} (snd r)
    /\ dget key_eqb (w_set (fst (fst r))) k = None
    /\ snd (fst r) = Yield m.
Proof. exact parked_released. Qed.
Print Assumptions C07_parked_released.

(* non-vacuity: park two values for one key and one for another node, wake node 1 *)
Example C07_example :
  let bat := fun _ : list N => @None Z in
  let vlt := vlt_full (fun _ _ => None) in
  let w0 := fst (fst (recv bat vlt 0 (init_world true) [] (lit "0;255;3;0;2;2.2"))) in
  let w1 := w_put_node (w_put_node w0 (mk_node 1 17 (lit "2.2") [] [] 0 0 false true))
                       (mk_node 2 17 (lit "2.2") [] [] 0 0 false true) in
  let w2 := fst (fst (send_op w1 [] (mk_msg 1 0 1 0 2 (lit "a")) true)) in
  let w3 := fst (fst (send_op w2 [] (mk_msg 1 0 1 0 2 (lit "b")) true)) in
  let w4 := fst (fst (send_op w3 [] (mk_msg 2 0 1 0 2 (lit "c")) true)) in
  let r := recv bat vlt 0 w4 [] (lit "1;255;3;0;32;") in
  map we_line (snd r) = [lit "1;0;1;0;2;b" ++ [10%N]]
  /\ map fst (w_set (fst (fst r))) = [(2, 0, 2)].
Proof. vm_compute. split; reflexivity. Qed.

(* non-vacuity of C07_parked_history: the command parked for node 1 survives traffic of node 2
   (its wake included), a battery report and a heartbeat response of node 1 itself (under 2.2
   not a wake signal), a rejected line, a send for another key and a reconnect *)
Example C07_history_example :
  let bat := fun _ : list N => Some 50 in
  let vlt := vlt_full (fun _ _ => None) in
  let w0 := fst (fst (recv bat vlt 0 (init_world true) [] (lit "0;255;3;0;2;2.2"))) in
  let w1 := w_put_node (w_put_node w0 (mk_node 1 17 (lit "2.2") [] [] 0 0 false true))
                       (mk_node 2 17 (lit "2.2") [] [] 0 0 false true) in
  let w2 := fst (fst (send_op w1 [] (mk_msg 1 0 1 0 2 (lit "a")) true)) in
  let ops := [OSend (mk_msg 2 0 1 0 2 (lit "c")) true []; ORecv (lit "2;255;3;0;32;") [true];
              ORecv (lit "1;255;3;0;0;50") []; ORecv (lit "1;255;3;0;22;7") []; ORecv (lit "garbage") [];
              OSend (mk_msg 1 0 1 0 3 (lit "d")) true []; OReconnect; ORecv (lit "2;255;3;0;32;") []] in
  dget key_eqb (w_set w2) (1, 0, 2) = Some (mk_msg 1 0 1 0 2 (lit "a"))
  /\ kept bat vlt 0 (1, 0, 2) w2 ops
  /\ map fst (w_set (run_ops bat vlt 0 w2 ops)) = [(1, 0, 2); (1, 0, 3)].
Proof.
  split; [vm_compute; reflexivity|split; [|vm_compute; reflexivity]].
  cbn [kept]. repeat split.
  all: try (intros m0 E; vm_compute in E; try discriminate E; injection E as <-; vm_compute; first [left; discriminate|right; reflexivity]).
  all: try (intros _; vm_compute; discriminate).
Qed.
