(* C15 — a crash during save never destroys the previously saved registry.
   FULL STATEMENT (false of the faithful model of save-in-place, known finding D12):
     forall old new c, load_text (after_inplace old new c) is LReg (persisted old) or LReg (persisted new).
   Proved instead: the refutation with a witness, the precise extent of the finding,
   and the property for the write-temp-then-rename sequence.  All for every
   render / parse pair satisfying the three stated facts about the JSON text layer. *)
From Coq Require Import List NArith ZArith Bool String.
From AMS Require Import Models GatewayFacts PersistFacts SaveCrash.
Import ListNotations.

Theorem C15_inplace_refuted :
  forall (render : list (Z * node) -> text) (parse : text -> option json),
    (forall reg, parse (render reg) = Some (dump_registry reg)) ->
    parse [] = Some (JObj []) ->
    (forall reg n, (0 < n < List.length (render reg))%nat -> parse (firstn n (render reg)) = None) ->
    (forall reg, reg_ok reg -> reg <> [] -> render reg <> []) ->
    exists old new c,
      reg_ok old /\ reg_ok new
      /\ load_text parse (after_inplace render old new c) <> LReg (persisted old)
      /\ load_text parse (after_inplace render old new c) <> LReg (persisted new)
      /\ load_text parse (after_inplace render old new c) <> LReadError.
Proof. exact crash_inplace_refuted. Qed.
Print Assumptions C15_inplace_refuted.

(* the extent of the finding: every crash point before the truncation leaves the
   old registry, every crash point after the complete write leaves the new one,
   and between them the file loads as the EMPTY registry (nothing on disk) or is a
   READ ERROR (a strict prefix on disk) — nothing else *)
Theorem C15_partial :
  forall (render : list (Z * node) -> text) (parse : text -> option json),
    (forall reg, parse (render reg) = Some (dump_registry reg)) ->
    parse [] = Some (JObj []) ->
    (forall reg n, (0 < n < List.length (render reg))%nat -> parse (firstn n (render reg)) = None) ->
    forall old new c, reg_ok old -> reg_ok new ->
      load_text parse (after_inplace render old new c) =
      match c with
      | BeforeOpen => LReg (persisted old)
      | AfterTruncate n =>
          if Nat.eqb n 0 then (if Nat.eqb (List.length (render new)) 0 then LReg (persisted new) else LReg [])
          else if Nat.ltb n (List.length (render new)) then LReadError
          else LReg (persisted new)
      end.
Proof. exact crash_inplace_outcomes. Qed.
Print Assumptions C15_partial.

(* what a repair has to look like *)
Theorem C15_atomic_ok :
  forall (render : list (Z * node) -> text) (parse : text -> option json),
    (forall reg, parse (render reg) = Some (dump_registry reg)) ->
    forall old new c, reg_ok old -> reg_ok new ->
      load_text parse (after_atomic render old new c) = LReg (persisted old)
      \/ load_text parse (after_atomic render old new c) = LReg (persisted new).
Proof. intros render parse H. exact (crash_atomic_ok render parse H). Qed.
Print Assumptions C15_atomic_ok.

(* an I/O error instead of a crash (the open, the buffered write or the flushing close of the save
   fails with OSError, the process lives): "the registry as last successfully saved" presupposes
   that a save which returns normally has written the file.  In the model every such error is
   reported as the persistence write error, and a save that returns normally leaves a file that
   loads to the registry that was saved *)
Theorem C15_save_io_reports :
  forall (render : list (Z * node) -> text) (parse : text -> option json),
    (forall reg, parse (render reg) = Some (dump_registry reg)) ->
    forall old new f, reg_ok new ->
      match fst (save_io render old new f) with
      | SaveDone => f = None /\ load_text parse (snd (save_io render old new f)) = LReg (persisted new)
      | SaveWriteError => f <> None
      end.
Proof. intros render parse H. exact (save_io_reports render parse H). Qed.
Print Assumptions C15_save_io_reports.

(* why reporting matters: after a close that failed with part of the text flushed the file is unreadable *)
Theorem C15_save_io_failed_close_extent :
  forall (render : list (Z * node) -> text) (parse : text -> option json),
    (forall reg n, (0 < n < List.length (render reg))%nat -> parse (firstn n (render reg)) = None) ->
    forall old new kept, reg_ok new -> (0 < kept < List.length (render new))%nat ->
      load_text parse (snd (save_io render old new (Some (FailClose kept)))) = LReadError.
Proof. intros render parse H. exact (save_io_failed_close_extent render parse H). Qed.
Print Assumptions C15_save_io_failed_close_extent.
