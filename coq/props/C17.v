(* C17 — the serial/TCP transport delivers exactly the lines of the byte stream.
   PARTIAL: asyncio.StreamReader.readuntil, sockets, serial ports and flow control
   are third-party runtime; Stream.v models readuntil as CPython 3.12 implements it
   and the correspondence run validates that model on a real StreamReader. *)
From Coq Require Import List NArith ZArith Bool String.
From AMS Require Import Models Stream StreamFacts Utf8Facts.
Import ListNotations.

(* for every schedule of feeds and reads (data never fed after eof): the reads that
   completed are exactly the first reads of the complete stream *)
Theorem C17_reads :
  forall limit ops r, wf_ops (r_eof r) ops ->
    fst (srun limit r ops)
    = reads_of limit (List.length (fst (srun limit r ops))) {| r_buf := r_buf r ++ fed ops; r_eof := true |}.
Proof. exact srun_spec. Qed.
Print Assumptions C17_reads.

(* hence: however the byte stream was split into chunks on arrival, and whenever the
   reads were issued, the i-th completed read has the same result *)
Theorem C17_chunking_irrelevant :
  forall limit ops1 ops2,
    wf_ops false ops1 -> wf_ops false ops2 -> fed ops1 = fed ops2 ->
    let r0 := {| r_buf := []; r_eof := false |} in
    List.length (fst (srun limit r0 ops1)) = List.length (fst (srun limit r0 ops2)) ->
    fst (srun limit r0 ops1) = fst (srun limit r0 ops2).
Proof. exact chunking_irrelevant. Qed.
Print Assumptions C17_chunking_irrelevant.

(* the newline-terminated lines of the stream (each within the limit) come out in
   order, one per read, decoded as UTF-8; an undecodable one as a read error in place *)
Theorem C17_lines :
  forall limit ls tail eof,
    Forall (fun l => no_nl l /\ (List.length l <= limit)%nat) ls ->
    reads_of limit (List.length ls) {| r_buf := flat_map (fun l => l ++ [terminator]) ls ++ tail; r_eof := eof |}
    = map (fun l => match utf8_decode (l ++ [terminator]) with
                    | Some s => RLine s
                    | None => RReadError (Some (l ++ [terminator]))
                    end) ls.
Proof. exact lines_delivered. Qed.
Print Assumptions C17_lines.

(* an over-long line is a read error for that read and every later one (the reader
   does not resynchronise); a stream that ends mid-line reports the partial bytes *)
Theorem C17_overlong :
  forall limit b eof i, find_nl b = Some i -> (limit < i)%nat ->
    forall n, reads_of limit n {| r_buf := b; r_eof := eof |} = repeat (RReadError None) n.
Proof. exact overlong_line_sticks. Qed.
Print Assumptions C17_overlong.

Theorem C17_incomplete :
  forall limit b, find_nl b = None -> (List.length b <= limit)%nat ->
    readuntil limit {| r_buf := b; r_eof := true |} = Some (RReadError (Some b), {| r_buf := []; r_eof := true |}).
Proof. exact incomplete_tail. Qed.
Print Assumptions C17_incomplete.

(* writes put exactly the UTF-8 bytes of the lines on the stream, in call order *)
Theorem C17_writes :
  forall lines t encs, st_connected t = true ->
    Forall2 (fun l b => utf8_encode l = Some b) lines encs ->
    st_out (write_all t lines) = st_out t ++ List.concat encs.
Proof. exact writes_concat. Qed.
Print Assumptions C17_writes.

(* and what is written is read back: strict UTF-8 round trip for every string of scalar values *)
Theorem C17_utf8_roundtrip :
  forall s bs, utf8_encode s = Some bs -> utf8_decode bs = Some s.
Proof. exact utf8_roundtrip. Qed.
Print Assumptions C17_utf8_roundtrip.

Theorem C17_utf8_total :
  forall s, Forall scalar s -> exists bs, utf8_encode s = Some bs.
Proof. exact utf8_encode_total. Qed.
Print Assumptions C17_utf8_total.

Theorem C17_not_connected :
  forall line f, fst (st_write {| st_connected := false; st_out := [] |} line f) = RNotConnected.
Proof. exact not_connected_errors. Qed.
Print Assumptions C17_not_connected.

(* ---- the transport object over its whole life (Stream.trun: connects that may fail,
   disconnects whose close may fail, the peer feeding / ending the stream, reads, writes) ---- *)

(* "disconnecting absorbs OS-level errors": in every state, whether closing fails or not,
   disconnect returns normally, closes the writer iff there is one, and touches nothing else *)
Theorem C17_disconnect_total :
  forall limit s f,
    snd (tstep limit s (TDisconnect f)) = TDone
    /\ ts_closes (fst (tstep limit s (TDisconnect f))) = (if ts_streams s then S (ts_closes s) else ts_closes s)
    /\ ts_out (fst (tstep limit s (TDisconnect f))) = ts_out s
    /\ ts_reader (fst (tstep limit s (TDisconnect f))) = ts_reader s.
Proof. exact disconnect_total. Qed.
Print Assumptions C17_disconnect_total.

(* "a failed connection attempt ... surfaces as a transport error" (and changes nothing) *)
Theorem C17_connect_failure :
  forall limit s, tstep limit s (TConnect false) = (s, TConnectError).
Proof. exact connect_failure. Qed.
Print Assumptions C17_connect_failure.

(* "using the transport before it was connected raises a transport error": in EVERY history
   without a successful connect — failed connects, disconnects, whatever the peer does —
   every read and every write gives it, and nothing is ever closed *)
Theorem C17_never_connected :
  forall limit ops,
    forallb (fun o => negb (is_connect_ok o)) ops = true ->
    Forall2 (fun o x => uses o = true -> x = TRes RNotConnected) ops (snd (trun limit ts_init ops))
    /\ ts_closes (fst (trun limit ts_init ops)) = 0%nat.
Proof. exact never_connected. Qed.
Print Assumptions C17_never_connected.

Theorem C17_connect_fresh :
  forall limit s,
    let s1 := fst (tstep limit s (TConnect true)) in
    ts_streams s1 = true /\ ts_reader s1 = {| r_buf := []; r_eof := false |} /\ ts_out s1 = [] /\ ts_closes s1 = ts_closes s.
Proof. exact connect_fresh. Qed.
Print Assumptions C17_connect_fresh.

Example C17_session_example :
  snd (trun 64 ts_init
         [TRead false; TConnect false; TWrite [49]%N WOk; TDisconnect true; TConnect true; TFeed [49; 10; 50]%N;
          TRead false; TRead false; TEof; TRead false; TWrite [50; 10]%N WOk; TWrite [51]%N WOSError; TRead true;
          TDisconnect true; TDisconnect false])
  = [TRes RNotConnected; TConnectError; TRes RNotConnected; TDone; TDone; TDone;
     TRes (RLine [49; 10]%N); TPending; TDone; TRes (RReadError (Some [50]%N)); TRes (RLine [50; 10]%N); TRes RFailed; TRes RFailed;
     TDone; TDone].
Proof. vm_compute. reflexivity. Qed.

Example C17_example :
  fst (srun 8 {| r_buf := []; r_eof := false |}
         [SRead; SFeed [49; 59]%N; SRead; SFeed [50; 10; 255]%N; SRead; SFeed [10; 120]%N; SRead; SRead; SEof; SRead])
  = [RLine [49; 59; 50; 10]%N; RReadError (Some [255; 10]%N); RReadError (Some [120]%N)].
Proof. vm_compute. reflexivity. Qed.
