(* C12 — send never silently discards a message. *)
From Coq Require Import List NArith ZArith String.
From AMS Require Import Models CodecFacts GatewayFacts GatewayInv GatewaySteps.
Import ListNotations.
Local Open Scope Z_scope.

(* FULL STATEMENT (false of the faithful model, see C12_internal_buffered_refuted):
     forall w faults m buffered, wf_msg m -> send_end m w (send_op w faults m buffered)
   where send_end is: the encoded line was written / the message is held in the
   sleep buffer for a registered sleeping destination / a library error was raised. *)

(* proved: the trichotomy for every case except 'internal command with buffering allowed' *)
Theorem C12_send_partial :
  forall w faults m buffered,
    0 <= m_cmd m <= 4 -> (m_cmd m = 3 -> buffered = false) ->
    send_end m w (send_op w faults m buffered).
Proof. exact send_trichotomy_partial. Qed.
Print Assumptions C12_send_partial.

(* the excluded case really fails: the message is not written, not held in the
   sleep buffer and no error is raised (known finding D9b) *)
Theorem C12_internal_buffered_refuted :
  forall vlt, exists w m, Inv vlt w /\ wf_msg m /\ ~ send_end m w (send_op w [] m true)
              /\ w_set (fst (fst (send_op w [] m true))) = w_set w.
Proof. exact send_internal_buffered_refuted. Qed.
Print Assumptions C12_internal_buffered_refuted.

(* a held command is delivered at the destination's next wake: C07_wake; a send never
   raises anything outside the library hierarchy and keeps the invariant *)
Theorem C12_send_library_errors_only :
  forall vlt m buffered s, Inv vlt (s_w s) -> 0 <= m_cmd m <= 4 ->
    Inv vlt (s_w (snd (send m buffered s))) /\ noesc (fst (send m buffered s)).
Proof.
  intros vlt m buffered s Hi Hk.
  destruct (send_preserves vlt m buffered s Hi Hk) as [H1 [_ [H2 _]]]. exact (conj H1 H2).
Qed.
Print Assumptions C12_send_library_errors_only.

(* which outgoing handlers exist, from the generated tables *)
Theorem C12_tables : forallb outgoing_ok protocols = true.
Proof. exact tables_ok_outgoing. Qed.
Print Assumptions C12_tables.

Example C12_examples :
  let w := w_put_node (init_world true) (mk_node 1 17 (lit "2.0") [] [] 0 0 false true) in
  snd (fst (send_op w [] (mk_msg 1 0 0 0 0 []) true)) = Raise (EUnsupported (mk_msg 1 0 0 0 0 []) (lit "1.4"))
  /\ snd (send_op w [] (mk_msg 2 0 1 0 2 (lit "x")) true) = [{| we_line := lit "2;0;1;0;2;x" ++ [10%N]; we_ok := true; we_msg := mk_msg 2 0 1 0 2 (lit "x") |}]
  /\ snd (send_op w [] (mk_msg 1 0 1 0 2 (lit "x")) true) = []
  /\ snd (fst (send_op w [true] (mk_msg 1 0 1 0 2 (lit "x")) false)) = Raise ETransport.
Proof. vm_compute. repeat split. Qed.
