(* C12 — send never silently discards a message. *)
From Coq Require Import List NArith ZArith String.
From AMS Require Import Models CodecFacts GatewayFacts GatewayInv GatewaySteps GatewaySbuf.
Import ListNotations.
Local Open Scope Z_scope.

(* FULL STATEMENT (false of the faithful model, see C12_internal_buffered_refuted):
     forall w faults m buffered, wf_msg m -> send_end m w (send_op w faults m buffered)
   where send_end is: the encoded line was written / the message is held in the
   sleep buffer for a registered sleeping destination / a library error was raised. *)

(* proved: the trichotomy for every case except 'internal command with buffering allowed' *)
Theorem C12_send_partial :
  forall w faults m buffered,
    0 <= m_cmd m <= 4 -> (m_cmd m = 3 -> buffered = false) ->
    send_end m w (send_op w faults m buffered).
Proof. exact send_trichotomy_partial. Qed.
Print Assumptions C12_send_partial.

(* the excluded case really fails: the message is not written, not held in the
   sleep buffer and no error is raised (known finding D9b) *)
Theorem C12_internal_buffered_refuted :
  forall vlt, exists w m, Inv vlt w /\ wf_msg m /\ ~ send_end m w (send_op w [] m true)
              /\ w_set (fst (fst (send_op w [] m true))) = w_set w.
Proof. exact send_internal_buffered_refuted. Qed.
Print Assumptions C12_internal_buffered_refuted.

(* a held command is delivered at the destination's next wake: C07_wake; a send never
   raises anything outside the library hierarchy and keeps the invariant *)
Theorem C12_send_library_errors_only :
  forall vlt m buffered s, Inv vlt (s_w s) -> 0 <= m_cmd m <= 4 ->
    Inv vlt (s_w (snd (send m buffered s))) /\ noesc (fst (send m buffered s)).
Proof.
  intros vlt m buffered s Hi Hk.
  destruct (send_preserves vlt m buffered s Hi Hk) as [H1 [_ [H2 _]]]. exact (conj H1 H2).
Qed.
Print Assumptions C12_send_library_errors_only.

(* "held" means delivered later, end to end: a send accepted without a write is held
   under its key, stays held through any history (receives, sends, reconnects, any fault
   streams) that has no wake of its node and no later set command for the same
   (node, child, type), and the line of that very message is written at the next
   fault-free wake of its node, after which it is gone from the buffer *)
Theorem C12_held_is_delivered :
  forall bat vlt now w faults m buffered ops line mw n bw f2,
    Inv vlt w -> wf_msg m -> (m_cmd m = 3 -> buffered = false) ->
    let r := send_op w faults m buffered in
    snd (fst r) = Done -> snd r = [] ->
    let w1 := fst (fst r) in
    Forall op_ok ops -> kept bat vlt now (msg_key m) w1 ops ->
    let w2 := run_ops bat vlt now w1 ops in
    decode (proto_of w2) line = DecOk mw -> m_cmd mw = 3 ->
    wake_body (w_proto w2) (m_type mw) = Some bw ->
    dget Z.eqb (w_nodes w2) (m_node mw) = Some n ->
    (bw = BHeartbeat20 -> exists hb, py_int (m_payload mw) = Some hb) ->
    Forall (fun x => x = false) f2 -> m_node mw = m_node m ->
    let r2 := recv bat vlt now w2 f2 line in
    In {| we_line := encode m; we_ok := true; we_msg := m |} (snd r2)
    /\ dget key_eqb (w_set (fst (fst r2))) (msg_key m) = None
    /\ snd (fst r2) = Yield mw.
Proof. exact held_is_delivered. Qed.
Print Assumptions C12_held_is_delivered.

(* its hypotheses are met: a command held for sleeping node 1, then a send to another
   child, a line of another node and a reconnect, then node 1's pre-sleep notification *)
Example C12_held_example :
  let bat := fun _ : list N => @None Z in
  let vlt := vlt_full (fun _ _ => None) in
  let w0 := fst (fst (recv bat vlt 0 (init_world true) [] (lit "0;255;3;0;2;2.2"))) in
  let w := w_put_node (w_put_node w0 (mk_node 1 17 (lit "2.2") [] [] 0 0 false true))
                      (mk_node 2 17 (lit "2.2") [] [] 0 0 false false) in
  let m := mk_msg 1 0 1 0 2 (lit "a") in
  let r := send_op w [] m true in
  let ops := [OSend (mk_msg 1 1 1 0 2 (lit "b")) true []; ORecv (lit "2;255;3;0;22;0") []; OReconnect] in
  let w2 := run_ops bat vlt 0 (fst (fst r)) ops in
  snd (fst r) = Done /\ snd r = []
  /\ dget key_eqb (w_set w2) (msg_key m) = Some m
  /\ map we_line (snd (recv bat vlt 0 w2 [] (lit "1;255;3;0;32;500")))
     = [lit "1;0;1;0;2;a" ++ [10%N]; lit "1;1;1;0;2;b" ++ [10%N]].
Proof. vm_compute. repeat split. Qed.

(* which outgoing handlers exist, from the generated tables *)
Theorem C12_tables : forallb outgoing_ok protocols = true.
Proof. exact tables_ok_outgoing. Qed.
Print Assumptions C12_tables.

Example C12_examples :
  let w := w_put_node (init_world true) (mk_node 1 17 (lit "2.0") [] [] 0 0 false true) in
  snd (fst (send_op w [] (mk_msg 1 0 0 0 0 []) true)) = Raise (EUnsupported (mk_msg 1 0 0 0 0 []) (lit "1.4"))
  /\ snd (send_op w [] (mk_msg 2 0 1 0 2 (lit "x")) true) = [{| we_line := lit "2;0;1;0;2;x" ++ [10%N]; we_ok := true; we_msg := mk_msg 2 0 1 0 2 (lit "x") |}]
  /\ snd (send_op w [] (mk_msg 1 0 1 0 2 (lit "x")) true) = []
  /\ snd (fst (send_op w [true] (mk_msg 1 0 1 0 2 (lit "x")) false)) = Raise ETransport.
Proof. vm_compute. repeat split. Qed.
