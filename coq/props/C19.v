(* C19 — a newer protocol version handles the older protocol's types identically.
   PARTIAL: the table facts below are proved (by computation, complete because
   the generated tables are finite); the end-to-end statement "the same history
   gives the same outcomes, writes and registry under both versions" is not
   proved as a simulation theorem — the model reads the protocol only through the
   lookups compared here, and the correspondence run compares two real gateways. *)
From Coq Require Import List NArith ZArith Bool String.
From AMS Require Import Models GatewayFacts GatewayInv GatewaySteps TablesMono.
Import ListNotations.
Local Open Scope Z_scope.

(* every type value of an older protocol exists in every newer one (all five
   tables), and the cross-field constants of the codec are the same *)
Theorem C19_tables_monotone :
  forallb (fun pq => tables_mono (fst pq) (snd pq)) (ordered_pairs protocols) = true.
Proof. exact tables_monotone. Qed.
Print Assumptions C19_tables_monotone.

(* within a major line every internal / stream value of the older protocol is
   dispatched to the same handler chain (same classes, same decorators) in the
   newer one, and so are the five command handlers and the outgoing handlers —
   except value 22 (heartbeat response) between 2.0/2.1 and 2.2, and that
   exception is necessary *)
Theorem C19_dispatch_same :
  dispatch_same_except [] proto_1_4 proto_1_5 = true
  /\ dispatch_same_except [] proto_2_0 proto_2_1 = true
  /\ dispatch_same_except [22] proto_2_1 proto_2_2 = true
  /\ dispatch_same_except [22] proto_2_0 proto_2_2 = true
  /\ dispatch_same_except [] proto_2_1 proto_2_2 = false.
Proof. exact dispatch_same_minor. Qed.
Print Assumptions C19_dispatch_same.

(* across the major line: each 1.x handler chain is the tail of the 2.x chain for
   the same name; the layers 2.x adds are protocol_20 / protocol_22 classes (the
   missing-node/child wrapper and the presentation marker) *)
Theorem C19_major :
  forallb (fun e => let '(n, c) := e in
             match lookup_chain (pt_incoming proto_2_0) n with
             | Some c2 => chain_1x_suffix c c2
             | None => false
             end) (pt_incoming proto_1_5) = true.
Proof. exact handlers_major. Qed.
Print Assumptions C19_major.

(* the documented difference: 2.0/2.1 heartbeat marks sleeping, stores the heartbeat
   and releases; 2.2 pre-sleep marks sleeping and releases *)
Theorem C19_heartbeat_20 :
  forall bat vlt now m s,
    run_body2 bat vlt now BHeartbeat20 no_super m s =
    match dget Z.eqb (w_nodes (s_w s)) (m_node m) with
    | None => (inr (EMissingNode (m_node m)), s)
    | Some n =>
        match py_int (m_payload m) with
        | None => (inr EInvalidMessage, s)
        | Some hb =>
            release m (with_nodes s (dset Z.eqb (w_nodes (s_w s)) (m_node m) (node_woken n (Some hb))))
                    (filter (of_node (m_node m)) (w_set (s_w s)))
        end
    end.
Proof. exact body_heartbeat20. Qed.
Print Assumptions C19_heartbeat_20.

Theorem C19_pre_sleep_22 :
  forall bat vlt now m s,
    run_body2 bat vlt now BPreSleep no_super m s =
    match dget Z.eqb (w_nodes (s_w s)) (m_node m) with
    | None => (inr (EMissingNode (m_node m)), s)
    | Some n =>
        release m (with_nodes s (dset Z.eqb (w_nodes (s_w s)) (m_node m) (node_woken n None)))
                (filter (of_node (m_node m)) (w_set (s_w s)))
    end.
Proof. exact body_pre_sleep. Qed.
Print Assumptions C19_pre_sleep_22.

(* 2.2's heartbeat response stores the heartbeat only *)
Theorem C19_heartbeat_22 :
  forall bat vlt now m s n hb,
    dget Z.eqb (w_nodes (s_w s)) (m_node m) = Some n -> py_int (m_payload m) = Some hb ->
    w_set (s_w (snd (run_body2 bat vlt now BHeartbeat22 no_super m s))) = w_set (s_w s)
    /\ s_log (snd (run_body2 bat vlt now BHeartbeat22 no_super m s)) = s_log s
    /\ fst (run_body2 bat vlt now BHeartbeat22 no_super m s) = inl m.
Proof.
  intros bat vlt now m s n hb Hn Hh.
  assert (E : exists ns, run_body2 bat vlt now BHeartbeat22 no_super m s = (inl m, with_nodes s ns)).
  { cbn [run_body2]. rewrite Hh. unfold bind at 1. rewrite require_node_eq, Hn.
    unfold bind. rewrite update_node_eq. eexists. reflexivity. }
  destruct E as [ns E]. rewrite E. repeat split; reflexivity.
Qed.
Print Assumptions C19_heartbeat_22.
