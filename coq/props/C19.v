(* C19 — a newer protocol version handles the older protocol's types identically.
   Within a major line (1.4 / 1.5; 2.0 / 2.1 / 2.2) the end-to-end statement is
   proved as a SIMULATION over whole histories (C19_minor_history): two gateways
   that agree on everything but the reported version / active protocol produce,
   operation by operation, the same outcome, the same writes and related worlds
   (same registry, buffers, configuration) — for every oracle, fault stream and
   history whose internal / stream types exist in the older protocol, outside the
   documented exception (22 towards 2.2), which is shown to be necessary.
   Across the major line (1.x -> 2.x) the statement is proved as a SIMULATION too
   (C19_major_history): a gateway pinned to a 1.x protocol and one pinned to a 2.x
   protocol, both with a known version, equal in registry, sleep buffer and
   configuration (the 2.x request markers are not compared), give operation by
   operation the same outcome and the same writes — as long as no step of the 1.x run
   ends in a missing-node/child error ("no unknown node or child is referenced"), no
   gateway-ready message occurs (type 14, the property's own exception) and no version
   report re-pins the gateways (type 2 / the gateway's own presentation).  Every 2.x
   chain of a 1.x handler name is the 1.x chain under protocol_20 / 22 layers
   (C19_major_layers, computed on the generated tables), which are no-ops but for
   clearing the request marker (C19_major_noop1 / 2).
   Not covered by the theorems: histories in which a version report switches a gateway
   between the major lines (the two real gateways are compared by the correspondence run). *)
From Coq Require Import List NArith ZArith Bool String.
From AMS Require Import Models Codec GatewayFacts GatewayInv GatewaySteps TablesMono GatewaySim GatewayMajor GatewaySimMajor.
From AMS Require Import GatewayHb.
Import ListNotations.
Local Open Scope Z_scope.

(* every type value of an older protocol exists in every newer one (all five
   tables), and the cross-field constants of the codec are the same *)
Theorem C19_tables_monotone :
  forallb (fun pq => tables_mono (fst pq) (snd pq)) (ordered_pairs protocols) = true.
Proof. exact tables_monotone. Qed.
Print Assumptions C19_tables_monotone.

(* within a major line every internal / stream value of the older protocol is
   dispatched to the same handler chain (same classes, same decorators) in the
   newer one, and so are the five command handlers and the outgoing handlers —
   except value 22 (heartbeat response) between 2.0/2.1 and 2.2, and that
   exception is necessary *)
Theorem C19_dispatch_same :
  dispatch_same_except [] proto_1_4 proto_1_5 = true
  /\ dispatch_same_except [] proto_2_0 proto_2_1 = true
  /\ dispatch_same_except [22] proto_2_1 proto_2_2 = true
  /\ dispatch_same_except [22] proto_2_0 proto_2_2 = true
  /\ dispatch_same_except [] proto_2_1 proto_2_2 = false.
Proof. exact dispatch_same_minor. Qed.
Print Assumptions C19_dispatch_same.

(* across the major line: each 1.x handler chain is the tail of the 2.x chain for
   the same name; the layers 2.x adds are protocol_20 / protocol_22 classes (the
   missing-node/child wrapper and the presentation marker) *)
Theorem C19_major :
  forallb (fun e => let '(n, c) := e in
             match lookup_chain (pt_incoming proto_2_0) n with
             | Some c2 => chain_1x_suffix c c2
             | None => false
             end) (pt_incoming proto_1_5) = true.
Proof. exact handlers_major. Qed.
Print Assumptions C19_major.

(* the documented difference: 2.0/2.1 heartbeat marks sleeping, stores the heartbeat
   and releases; 2.2 pre-sleep marks sleeping and releases *)
Theorem C19_heartbeat_20 :
  forall bat vlt now m s,
    run_body2 bat vlt now BHeartbeat20 no_super m s =
    match dget Z.eqb (w_nodes (s_w s)) (m_node m) with
    | None => (inr (EMissingNode (m_node m)), s)
    | Some n =>
        match py_int (m_payload m) with
        | None => (inr EInvalidMessage, s)
        | Some hb =>
            release m (with_nodes s (dset Z.eqb (w_nodes (s_w s)) (m_node m) (node_woken n (Some hb))))
                    (filter (of_node (m_node m)) (w_set (s_w s)))
        end
    end.
Proof. exact body_heartbeat20. Qed.
Print Assumptions C19_heartbeat_20.

Theorem C19_pre_sleep_22 :
  forall bat vlt now m s,
    run_body2 bat vlt now BPreSleep no_super m s =
    match dget Z.eqb (w_nodes (s_w s)) (m_node m) with
    | None => (inr (EMissingNode (m_node m)), s)
    | Some n =>
        release m (with_nodes s (dset Z.eqb (w_nodes (s_w s)) (m_node m) (node_woken n None)))
                (filter (of_node (m_node m)) (w_set (s_w s)))
    end.
Proof. exact body_pre_sleep. Qed.
Print Assumptions C19_pre_sleep_22.

(* 2.2's heartbeat response stores the heartbeat only *)
Theorem C19_heartbeat_22 :
  forall bat vlt now m s n hb,
    dget Z.eqb (w_nodes (s_w s)) (m_node m) = Some n -> py_int (m_payload m) = Some hb ->
    w_set (s_w (snd (run_body2 bat vlt now BHeartbeat22 no_super m s))) = w_set (s_w s)
    /\ s_log (snd (run_body2 bat vlt now BHeartbeat22 no_super m s)) = s_log s
    /\ fst (run_body2 bat vlt now BHeartbeat22 no_super m s) = inl m.
Proof.
  intros bat vlt now m s n hb Hn Hh.
  assert (E : exists ns, run_body2 bat vlt now BHeartbeat22 no_super m s = (inl m, with_nodes s ns)).
  { cbn [run_body2]. rewrite Hh. unfold bind at 1. rewrite require_node_eq, Hn.
    unfold bind. rewrite update_node_eq. eexists. reflexivity. }
  destruct E as [ns E]. rewrite E. repeat split; reflexivity.
Qed.
Print Assumptions C19_heartbeat_22.

(* the exception covers what the heartbeat does to a REGISTERED node and nothing else: a
   heartbeat response from a node that is not registered is handled identically under 2.0,
   2.1 and 2.2 — for every state satisfying the invariant, payload (numeric or not) and
   fault stream the step has a closed form that does not mention the protocol ... *)
Theorem C19_heartbeat_unknown_node :
  forall bat vlt now w faults line m,
    Inv vlt w -> (2 <= w_proto w)%nat ->
    decode (proto_of w) line = DecOk m -> m_cmd m = 3 -> m_type m = 22 ->
    dget Z.eqb (w_nodes w) (m_node m) = None ->
    recv bat vlt now w faults line =
      (let r := request_presentation m (EMissingNode (m_node m)) {| s_w := w; s_log := []; s_faults := faults |} in
       (s_w (snd r), match fst r with inl x => Yield x | inr e => Raise e end, rev (s_log (snd r)))).
Proof. exact heartbeat_unknown_step. Qed.
Print Assumptions C19_heartbeat_unknown_node.

(* ... so two gateways under any two 2.x protocols with the same registry and request markers
   give the same outcome and writes and stay in agreement *)
Theorem C19_heartbeat_unknown_agree :
  forall bat vlt now w w' faults line m,
    Inv vlt w -> Inv vlt w' -> (2 <= w_proto w)%nat -> (2 <= w_proto w')%nat ->
    decode (proto_of w) line = DecOk m -> decode (proto_of w') line = DecOk m ->
    m_cmd m = 3 -> m_type m = 22 ->
    dget Z.eqb (w_nodes w) (m_node m) = None ->
    w_nodes w = w_nodes w' -> w_internal w = w_internal w' ->
    let r := recv bat vlt now w faults line in
    let r' := recv bat vlt now w' faults line in
    snd (fst r) = snd (fst r') /\ snd r = snd r'
    /\ w_nodes (fst (fst r)) = w_nodes (fst (fst r')) /\ w_internal (fst (fst r)) = w_internal (fst (fst r'))
    /\ w_set (fst (fst r)) = w_set w /\ w_set (fst (fst r')) = w_set w'
    /\ w_proto (fst (fst r)) = w_proto w /\ w_proto (fst (fst r')) = w_proto w'.
Proof. exact heartbeat_unknown_agree. Qed.
Print Assumptions C19_heartbeat_unknown_agree.

Example C19_heartbeat_unknown_example :
  let bat := fun _ : list N => @None Z in
  let vlt := vlt_full (fun _ _ => None) in
  let start v := fst (fst (recv bat vlt 0 (init_world true) [] v)) in
  let r20 := recv bat vlt 0 (start (lit "0;255;3;0;2;2.0")) [] (lit "77;255;3;0;22;abc") in
  let r22 := recv bat vlt 0 (start (lit "0;255;3;0;2;2.2")) [] (lit "77;255;3;0;22;abc") in
  snd (fst r20) = Raise (EMissingNode 77) /\ snd (fst r22) = Raise (EMissingNode 77)
  /\ map we_line (snd r20) = [lit "77;255;3;0;19;" ++ [10%N]] /\ snd r20 = snd r22.
Proof. vm_compute. repeat split. Qed.

(* ---------- across the major line: the 2.x layers ---------- *)

Theorem C19_major_layers :
  forall p q n c1,
    In p [proto_1_4; proto_1_5] -> In q [proto_2_0; proto_2_1; proto_2_2] ->
    lookup_chain (pt_incoming p) n = Some c1 ->
    exists layers, lookup_chain (pt_incoming q) n = Some (layers ++ c1)
      /\ forallb (if is_l1_name n then layer_ok n else layer2_ok n) layers = true.
Proof. exact major_chain. Qed.
Print Assumptions C19_major_layers.

(* "as long as no unknown node or child is referenced": when the wrapped 1.x chain does not end
   in a missing-node/child error, the 2.x chain gives exactly its result, from the state with
   the marker (node, child, 19) cleared *)
Theorem C19_major_noop1 :
  forall bat vlt now name c1 m layers s,
    forallb (layer_ok name) layers = true ->
    not_missing (fst (run_chain1 bat vlt now name c1 m (strip name layers m s))) ->
    run_chain1 bat vlt now name (layers ++ c1) m s = run_chain1 bat vlt now name c1 m (strip name layers m s).
Proof. exact layers_noop1. Qed.
Print Assumptions C19_major_noop1.

Theorem C19_major_noop2 :
  forall bat vlt now name c1 m layers s,
    forallb (layer2_ok name) layers = true ->
    not_missing (fst (run_chain2 bat vlt now name c1 m s)) ->
    run_chain2 bat vlt now name (layers ++ c1) m s = run_chain2 bat vlt now name c1 m s.
Proof. exact layers_noop2. Qed.
Print Assumptions C19_major_noop2.

(* ---------- the simulation ---------- *)

(* which pairs agree on the dispatch of every type of the older protocol: computed on
   the generated tables (indices: 0 = 1.4, 1 = 1.5, 2 = 2.0, 3 = 2.1, 4 = 2.2) *)
Theorem C19_minor_pairs :
  pair_agree_b [] (proto_at 0) (proto_at 1) = true
  /\ pair_agree_b [] (proto_at 2) (proto_at 3) = true
  /\ pair_agree_b [22] (proto_at 3) (proto_at 4) = true
  /\ pair_agree_b [22] (proto_at 2) (proto_at 4) = true
  /\ pair_agree_b [] (proto_at 3) (proto_at 4) = false.
Proof. exact minor_pairs_agree. Qed.
Print Assumptions C19_minor_pairs.

(* the hypothesis of the property on a history: every received line that decodes carries
   a type of the older protocol (internal: outside the exception); sends are unrestricted *)
Definition history_in_older (except : list Z) (i : nat) (ops : list op) : Prop :=
  Forall (fun o => match o with
                   | ORecv line _ => forall m, decode (proto_at i) line = DecOk m -> in_older except (proto_at i) m
                   | _ => True
                   end) ops.

(* for every oracle, every history (received lines with fault streams, sends, reconnects)
   and every pair of worlds related by Rw i j (equal but for reported version / active
   protocol i resp. j, or equal): per operation the same outcome (the unsupported-message
   error compared without the version string it carries) and the same write log; the final
   worlds are related again *)
Theorem C19_minor_history :
  forall bat vlt now except i j ops w w',
    pair_agree_b except (proto_at i) (proto_at j) = true ->
    history_in_older except i ops ->
    Rw i j w w' ->
    Forall2 (fun x x' => outcome_rel (fst x) (fst x') /\ snd x = snd x')
            (trace bat vlt now w ops) (trace bat vlt now w' ops)
    /\ Rw i j (run_ops bat vlt now w ops) (run_ops bat vlt now w' ops).
Proof.
  intros bat vlt now except i j ops w w' Hp Hh Hw. apply sim_history; [|exact Hw].
  unfold history_in_older in Hh. rewrite Forall_forall in Hh |- *. intros o Ho. specialize (Hh o Ho).
  destruct o as [line faults|m b faults|]; cbn [op_agree]; try exact I.
  apply (line_agree_of_tables except); assumption.
Qed.
Print Assumptions C19_minor_history.

(* one step, for any line the two tables agree on (the general form) *)
Theorem C19_step :
  forall bat vlt now i j o w w',
    op_agree i j o -> Rw i j w w' ->
    let r := step_op bat vlt now w o in let r' := step_op bat vlt now w' o in
    Rw i j (fst (fst r)) (fst (fst r')) /\ outcome_rel (snd (fst r)) (snd (fst r')) /\ snd r = snd r'.
Proof. exact sim_step_op. Qed.
Print Assumptions C19_step.

Definition sim_bat : list N -> option Z := fun _ => Some 55.
Definition sim_vlt := vlt_full (fun _ _ => None).
Definition pin (pv : string) (i : nat) (w : world) : world :=
  {| w_nodes := w_nodes w; w_pv := Some (lit pv); w_proto := i; w_internal := w_internal w; w_set := w_set w;
     w_metric := w_metric w |}.
Definition sim_w0 : world :=
  w_put_node (w_add_child (w_put_node (init_world true) (mk_node 1 17 (lit "2.0") [] [] 0 0 false true)) 1 0 3 [])
             (mk_node 2 17 (lit "2.0") [] [] 0 0 false false).
Definition sim_ops : list op :=
  [OSend (mk_msg 1 0 1 0 2 (lit "1")) true []; ORecv (lit "2;255;3;0;0;77") []; ORecv (lit "1;0;1;0;2;0") [];
   ORecv (lit "9;255;3;0;3;") [true]; OReconnect; ORecv (lit "1;255;3;0;22;500") []; ORecv (lit "0;255;3;0;2;2.1.0") [];
   ORecv (lit "2;255;3;0;6;") []].

(* non-vacuity: a history over 2.0's types, run under 2.0 and under 2.1 (it parks a command,
   releases it at the heartbeat, hands out an id with a failing write, processes a version
   report after which both worlds are equal) *)
Example C19_minor_example :
  history_in_older [] 2 sim_ops
  /\ Rw 2 3 (pin "2.0" 2 sim_w0) (pin "2.1" 3 sim_w0)
  /\ map snd (trace sim_bat sim_vlt 0 (pin "2.0" 2 sim_w0) sim_ops) = map snd (trace sim_bat sim_vlt 0 (pin "2.1" 3 sim_w0) sim_ops)
  /\ List.length (List.concat (map snd (trace sim_bat sim_vlt 0 (pin "2.0" 2 sim_w0) sim_ops))) = 3%nat.
Proof.
  split; [|split; [|split]].
  - unfold history_in_older, sim_ops. repeat (apply Forall_cons; [try exact I|]); try apply Forall_nil.
    all: intros m E; vm_compute in E; injection E as <-; split; intros K; try discriminate K; vm_compute; try reflexivity;
      split; reflexivity.
  - left. repeat split.
  - vm_compute. reflexivity.
  - vm_compute. reflexivity.
Qed.

(* the exception is necessary: the heartbeat response releases under 2.1 and not under 2.2 *)
Example C19_exception_necessary :
  let ops := [OSend (mk_msg 1 0 1 0 2 (lit "1")) true []; ORecv (lit "1;255;3;0;22;500") []] in
  map snd (trace sim_bat sim_vlt 0 (pin "2.1" 3 sim_w0) ops) <> map snd (trace sim_bat sim_vlt 0 (pin "2.2" 4 sim_w0) ops).
Proof. vm_compute. discriminate. Qed.

(* ---------- the simulation across the major line ---------- *)

Theorem C19_major_pairs :
  forallb (fun p => forallb (major_agree_b [2; 14] p) [proto_2_0; proto_2_1; proto_2_2]) [proto_1_4; proto_1_5] = true
  /\ major_agree_b [2] proto_1_5 proto_2_0 = false.
Proof. exact major_pairs_agree. Qed.
Print Assumptions C19_major_pairs.

(* the hypothesis on a history: every received line that decodes carries a type of the older
   protocol outside [except] and is not the gateway's own presentation; and no step of the 1.x
   run ends in a missing-node/child error *)
Fixpoint major_history_ok bat vlt now (except : list Z) (i : nat) (w : world) (ops : list op) : Prop :=
  match ops with
  | [] => True
  | o :: r =>
      match o with
      | ORecv line _ => forall m, decode (proto_at i) line = DecOk m -> in_older_m except (proto_at i) m
      | _ => True
      end
      /\ nm_outcome (snd (fst (step_op bat vlt now w o)))
      /\ major_history_ok bat vlt now except i (world_after bat vlt now w o) r
  end.

Theorem C19_major_history :
  forall bat vlt now except i j ops w w',
    major_agree_b except (proto_at i) (proto_at j) = true ->
    major_history_ok bat vlt now except i w ops ->
    Rmw i j w w' ->
    Forall2 (fun x x' => outcome_rel (fst x) (fst x') /\ snd x = snd x')
            (trace bat vlt now w ops) (trace bat vlt now w' ops)
    /\ Rmw i j (run_ops bat vlt now w ops) (run_ops bat vlt now w' ops).
Proof.
  intros bat vlt now except i j ops w w' Hp Hh Hw. apply sim_history_m; [|exact Hw].
  clear Hw w'. revert w Hh. induction ops as [|o r IH]; intros w Hh; cbn [hist_ok]; [exact I|].
  destruct Hh as [H1 [H2 H3]]. split; [|split; [exact H2|apply IH; exact H3]].
  destruct o as [line faults|m b faults|]; cbn [op_agree_m]; try exact I.
  apply (line_agree_m_of_tables except); assumption.
Qed.
Print Assumptions C19_major_history.

(* non-vacuity: the history of C19_minor_example without its version report, under 1.5 and under 2.1,
   on a registry in which every referenced node and child is known *)
Definition major_w0 : world :=
  w_add_child (w_put_node (w_add_child (w_put_node (init_world true) (mk_node 1 17 (lit "2.0") [] [] 0 0 false true)) 1 0 3 [])
                          (mk_node 2 17 (lit "2.0") [] [] 0 0 false false)) 2 0 3 [].
Definition major_ops : list op :=
  [OSend (mk_msg 1 0 1 0 2 (lit "1")) true []; ORecv (lit "2;255;3;0;0;77") []; ORecv (lit "1;0;1;0;2;0") [];
   ORecv (lit "9;255;3;0;3;") [true]; OReconnect; ORecv (lit "2;0;2;0;2;") []; ORecv (lit "2;255;3;0;6;") [];
   ORecv (lit "2;0;1;0;2;5") []; ORecv (lit "2;0;2;0;2;") []].

Example C19_major_example :
  major_history_ok sim_bat sim_vlt 0 [2; 14] 1 (pin "1.5" 1 major_w0) major_ops
  /\ Rmw 1 3 (pin "1.5" 1 major_w0) (pin "2.1" 3 major_w0)
  /\ map snd (trace sim_bat sim_vlt 0 (pin "1.5" 1 major_w0) major_ops) = map snd (trace sim_bat sim_vlt 0 (pin "2.1" 3 major_w0) major_ops)
  /\ List.length (List.concat (map snd (trace sim_bat sim_vlt 0 (pin "1.5" 1 major_w0) major_ops))) = 3%nat.
Proof.
  split; [|split; [|split]].
  - unfold major_ops.
    Ltac recv_ok := split; [intros m E; vm_compute in E; injection E as <-; vm_compute;
                              repeat split; try reflexivity; try congruence;
                              try (intros K; try discriminate K; try congruence; destruct K; congruence)
                           |split; [vm_compute; first [exact I|reflexivity]|]].
    Ltac other_ok := split; [exact I|split; [vm_compute; first [exact I|reflexivity]|]].
    cbn [major_history_ok]. other_ok. cbn [major_history_ok]. recv_ok. cbn [major_history_ok]. recv_ok.
    cbn [major_history_ok]. recv_ok. cbn [major_history_ok]. other_ok. cbn [major_history_ok]. recv_ok.
    cbn [major_history_ok]. recv_ok. cbn [major_history_ok]. recv_ok. cbn [major_history_ok]. recv_ok.
    exact I.
  - split; [repeat split|split; reflexivity].
  - vm_compute. reflexivity.
  - vm_compute. reflexivity.
Qed.
