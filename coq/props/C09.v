(* C09 — no set command is lost when send races with the wake-up flush.
   The theorems are about the small-step system of theories/Flush.v, whose
   schedule places sends at every step boundary of the listener (a superset of
   what asyncio allows).  Assumed, not proved: asyncio runs a task atomically
   between suspension points, transport.write is the only suspension point
   inside the flush.  The full-strength statement is proved for schedules whose racing
   sends park (Forall parks_only: the woken node stays flagged sleeping during the flush).
   A send to a node flagged AWAKE whose write is still suspended when that node's wake signal
   starts a flush is modelled too (FDirectBegin / FDirectEnd) and REFUTES the property:
   C09_direct_race_refuted = known finding C09:direct-race (a parked command survived a
   re-presentation of its node). *)
From Coq Require Import List NArith ZArith Bool String.
From Coq Require Import Sorted.
From AMS Require Import Models Flush FlushFacts FlushOrder.
Import ListNotations.
Local Open Scope Z_scope.

(* for every schedule — any interleaving of sends, wakes, write completions and
   write failures — with one tag per send: once the flush in progress has
   finished and every node of [nodes] has woken once more, the last value written
   for each key of those nodes is the last value sent for it *)
Theorem C09_no_lost_update :
  forall ops nodes,
    Forall parks_only ops -> NoDup (sent_tags ops) ->
    let s := quiesce true (frun true finit ops) nodes in
    forall k t, In (node_of (k, t)) nodes ->
      last_for k (f_sent s) = Some t -> last_for k (f_written s) = Some t.
Proof. exact no_lost_update. Qed.
Print Assumptions C09_no_lost_update.

(* at every moment of every schedule: every successful write carries a value that
   was sent, and no value is written more often than it was sent *)
Theorem C09_writes_were_sent :
  forall ops,
    Forall parks_only ops -> NoDup (sent_tags ops) ->
    let s := frun true finit ops in
    incl (f_written s) (f_sent s) /\ NoDup (tags (f_written s)).
Proof. exact writes_were_sent. Qed.
Print Assumptions C09_writes_were_sent.

Theorem C09_writes_were_sent_at_quiescence :
  forall ops nodes,
    Forall parks_only ops -> NoDup (sent_tags ops) ->
    let s := quiesce true (frun true finit ops) nodes in
    incl (f_written s) (f_sent s) /\ NoDup (tags (f_written s))
    /\ tags (f_sent s) = sent_tags ops.
Proof. exact writes_were_sent_quiesced. Qed.
Print Assumptions C09_writes_were_sent_at_quiescence.

(* the invariant behind both, for every reachable state of every schedule *)
Theorem C09_invariant :
  forall ops s, Forall parks_only ops -> FInv s -> NoDup (tags (f_sent s) ++ sent_tags ops) ->
    FInv (frun true s ops) /\ tags (f_sent (frun true s ops)) = tags (f_sent s) ++ sent_tags ops.
Proof. exact FInv_run. Qed.
Print Assumptions C09_invariant.

(* the original code (unconditional pop after the awaited write) loses the update:
   the witness of D8, fixed in /repo by 3719329 *)
Theorem C09_unguarded_pop_refuted :
  exists ops nodes k t,
    NoDup (sent_tags ops) /\ In (node_of (k, t)) nodes
    /\ let s := quiesce false (frun false finit ops) nodes in
       last_for k (f_sent s) = Some t /\ last_for k (f_written s) <> Some t.
Proof. exact lost_update_refuted. Qed.
Print Assumptions C09_unguarded_pop_refuted.

(* KNOWN FINDING C09:direct-race.  A command is parked for node 1; node 1 presents itself again
   (flagged awake, the parked command stays); the application sends a newer value, which is
   written directly and whose write suspends; node 1's wake signal arrives and the flush writes
   the stale parked value AFTER the newer one.  Both pops are guarded (736f88a, 3719329): no
   update is dropped from the buffer, but the last value written is not the last value sent. *)
Theorem C09_direct_race_refuted :
  exists ops nodes k t,
    In (node_of (k, t)) nodes
    /\ let s := quiesce true (frun true finit ops) nodes in
       last_for k (f_sent s) = Some t /\ last_for k (f_written s) <> Some t /\ f_buf s = [].
Proof. exact direct_race_refuted. Qed.
Print Assumptions C09_direct_race_refuted.

(* ORDER.  Stronger than "the last value wins": with the sends numbered in time order, in every
   schedule whose racing sends park, at every moment, the values written for one key left in the
   order in which they were sent — an older value is never written after a newer one
   (theories/FlushOrder.v: invariant OInv = every written tag for a key is below every live tag
   for it, a snapshot entry is never newer than the buffer's entry for its key). *)
Theorem C09_writes_in_send_order :
  forall ops,
    Forall parks_only ops -> StronglySorted Z.lt (sent_tags ops) ->
    let s := frun true finit ops in
    forall a k t1 b t2, f_written s = a ++ (k, t1) :: b -> In (k, t2) b -> t1 < t2.
Proof. exact writes_in_send_order. Qed.
Print Assumptions C09_writes_in_send_order.

Theorem C09_writes_in_send_order_at_quiescence :
  forall ops nodes,
    Forall parks_only ops -> StronglySorted Z.lt (sent_tags ops) ->
    let s := quiesce true (frun true finit ops) nodes in
    forall a k t1 b t2, f_written s = a ++ (k, t1) :: b -> In (k, t2) b -> t1 < t2.
Proof. exact writes_in_send_order_quiesced. Qed.
Print Assumptions C09_writes_in_send_order_at_quiescence.

(* the known finding C09:direct-race is exactly a violation of that order *)
Theorem C09_send_order_direct_race_refuted :
  exists ops a k t1 b t2,
    StronglySorted Z.lt (flat_map (fun o => match o with FSend _ t | FDirectBegin _ t => [t] | _ => [] end) ops)
    /\ f_written (frun true finit ops) = a ++ (k, t1) :: b /\ In (k, t2) b /\ ~ t1 < t2.
Proof. exact send_order_direct_race_refuted. Qed.
Print Assumptions C09_send_order_direct_race_refuted.

Example C09_send_order_example :
  let ops := [FSend (3, 1, 2) 100; FSend (3, 0, 2) 200; FWake 3; FBegin; FSend (3, 1, 2) 201;
              FEnd true; FBegin; FEnd true; FWake 3; FBegin; FEnd true] in
  StronglySorted Z.lt (sent_tags ops)
  /\ f_written (frun true finit ops) = [((3, 1, 2), 100); ((3, 0, 2), 200); ((3, 1, 2), 201)].
Proof. exact writes_in_send_order_example. Qed.

Example C09_example :
  let ops := [FSend (3, 1, 2) 100; FSend (3, 0, 2) 200; FWake 3; FBegin; FSend (3, 1, 2) 101;
              FSend (3, 0, 2) 201; FEnd true; FBegin; FEnd false; FSend (3, 1, 2) 102] in
  let s := quiesce true (frun true finit ops) [3] in
  NoDup (sent_tags ops)
  /\ f_written s = [((3, 1, 2), 100); ((3, 1, 2), 102); ((3, 0, 2), 201)]
  /\ f_buf s = [].
Proof. exact no_lost_update_example. Qed.
