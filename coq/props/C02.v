(* C02 — the decoder accepts exactly the well-formed lines.  Statements only. *)
From Coq Require Import String.
From Coq Require Import List NArith ZArith.
From AMS Require Import Models PyStrFacts CodecFacts.
Import ListNotations.
Local Open Scope Z_scope.

(* a line is accepted iff (after stripping trailing whitespace) it is six
   ';'-separated fields — the sixth being the whole remainder — whose first
   five are integers obeying the ranges and the two cross-field rules; the
   decoded message carries exactly those values *)
Theorem C02_accept_iff :
  forall p line m, In p protocols -> (decode p line = DecOk m <-> wf_line line m).
Proof. exact decode_accept_iff. Qed.
Print Assumptions C02_accept_iff.

(* every other string is rejected as an invalid message, never by another failure *)
Theorem C02_reject_is_invalid :
  forall p line, (exists m, decode p line = DecOk m) \/ decode p line = DecInvalid.
Proof. exact decode_total. Qed.
Print Assumptions C02_reject_is_invalid.

(* the accept condition of the model is the property's, with its literal
   constants, for each generated protocol table *)
Theorem C02_accept_condition :
  forall p n c k a t, In p protocols ->
    (accept_fields p n c k a t = true <-> wf_fields n c k a t).
Proof.
  intros p n c k a t Hin. rewrite accept_fields_spec by exact Hin. apply wf_fields_b_spec.
Qed.
Print Assumptions C02_accept_condition.

Theorem C02_tables :
  forallb proto_consts_ok protocols = true
  /\ map fd_name message_schema =
     ["node_id"; "child_id"; "command"; "ack"; "message_type"; "payload"]%string
  /\ forallb fd_required message_schema = true.
Proof.
  split; [exact tables_ok_consts|].
  destruct tables_ok_schema as [_ [_ [H1 [_ [H2 _]]]]]. split; assumption.
Qed.
Print Assumptions C02_tables.

(* non-vacuity and the sampled corner cases of the statement *)
Example C02_examples :
  decode proto_2_2 (lit "1;2") = DecInvalid
  /\ decode proto_2_2 (lit "") = DecInvalid
  /\ decode proto_2_2 (lit "1;2;1;0") = DecInvalid
  /\ decode proto_2_2 (lit "256;1;1;0;0;x") = DecInvalid
  /\ decode proto_2_2 (lit "1;255;1;0;0;x") = DecInvalid
  /\ decode proto_2_2 (lit "1;7;3;0;0;x") = DecInvalid
  /\ decode proto_2_2 (lit "1;7;3;0;3;x") = DecOk (mk_msg 1 7 3 0 3 (lit "x"))
  /\ decode proto_1_4 (lit " 1 ;+2;1;0;-5;a;b ") = DecOk (mk_msg 1 2 1 0 (-5) (lit "a;b")).
Proof. vm_compute. repeat split. Qed.
Print Assumptions C02_examples.
