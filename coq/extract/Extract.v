(* Extraction of the executable model to OCaml.  ExtrOcamlBasic only: bool,
   option, unit, list, prod, sumbool map to the OCaml types; Z, N, positive,
   nat, string/ascii stay the extracted inductive types.  No Extract Constant. *)
From Coq Require Import ZArith NArith List.
From Coq Require Extraction.
From Coq Require Import ExtrOcamlBasic.
From AMS Require Import Models SaveCrash GatewayInv OpsDrv.
Extraction Language OCaml.
Extraction "model.ml"
  Z.add Z.mul Z.opp Z.of_N Z.of_nat N.add N.mul
  init_world recv_drv send_drv setver_drv step_op_drv decode_at encode
  w_put_node w_add_child w_set_value w_set_reboot w_set_sleeping mk_node
  show_step show_world show_dec show_msg
  utf8_encode utf8_decode py_int rstrip split splitn join str_of_Z
  parse_ver vlt_full
  frun quiesce finit
  load_registry load_node load_child dump_registry dump_node legacy_node show_node show_nodes crash_category io_fault_category
  srun readuntil st_write trun ts_init to_mqtt client_write mqtt_connect mqtt_disconnect mc_init life_run ml_init of_mqtt filter_matches subscriptions receive_loop
  lrun linit.
