(* Correspondence driver: reads one operation per line (space separated
   integers; strings are length-prefixed code point lists), runs the extracted
   model, prints each result as one line of space separated code points. *)
type cursor = { toks : string array; mutable pos : int }

let next c =
  let t = c.toks.(c.pos) in
  c.pos <- c.pos + 1;
  t

let next_int c = int_of_string (next c)
open Model

let rec pos_of_int n =
  if n = 1 then XH
  else if n land 1 = 0 then XO (pos_of_int (n lsr 1))
  else XI (pos_of_int (n lsr 1))

let n_of_int i = if i = 0 then N0 else Npos (pos_of_int i)
let z_of_int i = if i = 0 then Z0 else if i > 0 then Zpos (pos_of_int i) else Zneg (pos_of_int (-i))

let rec int_of_pos = function
  | XH -> 1
  | XO p -> 2 * int_of_pos p
  | XI p -> 2 * int_of_pos p + 1

let int_of_n = function N0 -> 0 | Npos p -> int_of_pos p

let rec nat_of_int i = if i = 0 then O else S (nat_of_int (i - 1))

(* arbitrary-size decimal token -> z, using the extracted arithmetic *)
let z_of_string s =
  let neg = String.length s > 0 && s.[0] = '-' in
  let start = if neg then 1 else 0 in
  let ten = z_of_int 10 in
  let acc = ref Z0 in
  for i = start to String.length s - 1 do
    acc := Z.add (Z.mul !acc ten) (z_of_int (Char.code s.[i] - 48))
  done;
  if neg then Z.opp !acc else !acc

let next_z c = z_of_string (next c)
let next_bool c = next_int c <> 0

let next_str c =
  let len = next_int c in
  let rec go i acc = if i = 0 then List.rev acc else go (i - 1) (n_of_int (next_int c) :: acc) in
  go len []

let next_list c f =
  let len = next_int c in
  let rec go i acc = if i = 0 then List.rev acc else go (i - 1) (f c :: acc) in
  go len []

(* 0 = raised, 1 = false, 2 = true *)
let next_optbool c =
  match next_int c with 0 -> None | 1 -> Some false | _ -> Some true

let next_optz c = if next_bool c then Some (next_z c) else None

let buf = Buffer.create 65536

let print_str (s : n list) =
  Buffer.clear buf;
  let first = ref true in
  List.iter
    (fun cp ->
      if !first then first := false else Buffer.add_char buf ' ';
      Buffer.add_string buf (string_of_int (int_of_n cp)))
    s;
  Buffer.add_char buf '\n';
  print_string (Buffer.contents buf)

(* JSON values in prefix notation: N | B 0/1 | I z | F hastrunc [z] is01(0 none,1 false,2 true)
   | S str | A n item* | O n (str item)* *)
let rec next_json c : json =
  match next c with
  | "N" -> JNull
  | "B" -> JBool (next_bool c)
  | "I" -> JInt (next_z c)
  | "F" ->
      let tr = if next_bool c then Some (next_z c) else None in
      let b = match next_int c with 0 -> None | 1 -> Some false | _ -> Some true in
      JFloat (tr, b)
  | "S" -> JStr (next_str c)
  | "A" ->
      let n = next_int c in
      let rec go i acc = if i = 0 then List.rev acc else go (i - 1) (next_json c :: acc) in
      JArr (go n [])
  | "O" ->
      let n = next_int c in
      let rec go i acc =
        if i = 0 then List.rev acc
        else
          let k = next_str c in
          let v = next_json c in
          go (i - 1) ((k, v) :: acc)
      in
      JObj (go n [])
  | t -> failwith ("bad json token " ^ t)

let lit_ s = List.init (String.length s) (fun i -> n_of_int (Char.code s.[i]))

let rec show_json (j : json) : n list =
  let sp = [ n_of_int 32 ] in
  match j with
  | JNull -> lit_ "N"
  | JBool b -> lit_ (if b then "B 1" else "B 0")
  | JInt zv -> lit_ "I " @ str_of_Z zv
  | JFloat (_, _) -> lit_ "F"
  | JStr s ->
      lit_ "S " @ str_of_Z (Z.of_nat (nat_of_int (List.length s)))
      @ List.concat (List.map (fun cp -> sp @ str_of_Z (Z.of_N cp)) s)
  | JArr l ->
      lit_ "A " @ str_of_Z (Z.of_nat (nat_of_int (List.length l)))
      @ List.concat (List.map (fun x -> sp @ show_json x) l)
  | JObj l ->
      lit_ "O " @ str_of_Z (Z.of_nat (nat_of_int (List.length l)))
      @ List.concat
          (List.map
             (fun (k, v) ->
               sp @ str_of_Z (Z.of_nat (nat_of_int (List.length k)))
               @ List.concat (List.map (fun cp -> sp @ str_of_Z (Z.of_N cp)) k)
               @ sp @ show_json v)
             l)

let world = ref (init_world true)
let vans : bool option list ref = ref []
let batans : z option ref = ref None
let now = ref Z0

let next_msg c =
  let n = next_z c in
  let ch = next_z c in
  let k = next_z c in
  let a = next_z c in
  let t = next_z c in
  let p = next_str c in
  { m_node = n; m_child = ch; m_cmd = k; m_ack = a; m_type = t; m_payload = p }

let step r =
  let (w, _), _ = r in
  world := w;
  print_str (show_step r)

let handle line =
  let c = { toks = Array.of_list (String.split_on_char ' ' line); pos = 0 } in
  match next c with
  | "I" ->
      world := init_world (next_bool c);
      print_str (show_world !world)
  | "O" ->
      (* oracle answers used until the next O: battery, version comparisons, clock *)
      batans := next_optz c;
      vans := next_list c next_optbool;
      now := next_z c;
      print_str []
  | "R" ->
      let faults = next_list c next_bool in
      let line = next_str c in
      step (recv_drv !batans !vans !now !world faults line)
  | "T" ->
      let faults = next_list c next_bool in
      let m = next_msg c in
      let buffered = next_bool c in
      step (send_drv !vans !world faults m buffered)
  | "P" ->
      let v = next_str c in
      step (setver_drv !vans !world v)
  | "X" ->
      (* leave the session and enter it again: step_op _ OReconnect *)
      let (w, _), _ = step_op_drv !batans !vans !now !world OReconnect in
      world := w;
      print_str (show_world !world)
  | "N" ->
      let id = next_z c in
      let typ = next_z c in
      let ver = next_str c in
      let sname = next_str c in
      let sver = next_str c in
      let bat = next_z c in
      let hb = next_z c in
      let reboot = next_bool c in
      let sleeping = next_bool c in
      world := w_put_node !world (mk_node id typ ver sname sver bat hb reboot sleeping);
      print_str (show_world !world)
  | "C" ->
      let id = next_z c in
      let cid = next_z c in
      let ct = next_z c in
      let d = next_str c in
      world := w_add_child !world id cid ct d;
      print_str (show_world !world)
  | "V" ->
      let id = next_z c in
      let cid = next_z c in
      let vt = next_z c in
      let v = next_str c in
      world := w_set_value !world id cid vt v;
      print_str (show_world !world)
  | "B" ->
      let id = next_z c in
      world := w_set_reboot !world id (next_bool c);
      print_str (show_world !world)
  | "S" ->
      let id = next_z c in
      world := w_set_sleeping !world id (next_bool c);
      print_str (show_world !world)
  | "DEC" ->
      let i = next_int c in
      let l = next_str c in
      print_str (show_dec (decode_at (nat_of_int i) l))
  | "ENC" ->
      let m = next_msg c in
      print_str (encode m)
  | "INT" ->
      let s = next_str c in
      (match py_int s with
       | None -> print_str [ n_of_int 78 ]
       | Some zv -> print_str (str_of_Z zv))
  | "RSTRIP" -> print_str (rstrip (next_str c))
  | "PARSEVER" ->
      let s = next_str c in
      (match parse_ver s with
       | None -> print_str [ n_of_int 78 ]
       | Some l ->
           print_str
             (List.concat
                (List.map (fun x -> str_of_Z (Z.of_N x) @ [ n_of_int 32 ]) l)))
  | "U8D" ->
      let bs = next_str c in
      (match utf8_decode bs with
       | None -> print_str [ n_of_int 78 ]
       | Some s -> print_str (n_of_int 83 :: s))
  | "U8E" ->
      let s = next_str c in
      (match utf8_encode s with
       | None -> print_str [ n_of_int 78 ]
       | Some s -> print_str (n_of_int 83 :: s))
  | "PLOAD" ->
      (* Persistence.load of a parsed file into an empty registry *)
      let j = next_json c in
      (match load_registry j [] with
       | None -> print_str (lit_ "ERR")
       | Some ns -> print_str (lit_ "OK" @ show_nodes ns))
  | "PLOADW" ->
      (* ... into the current world's registry *)
      let j = next_json c in
      (match load_registry j !world.w_nodes with
       | None -> print_str (lit_ "ERR")
       | Some ns -> print_str (lit_ "OK" @ show_nodes ns))
  | "PDUMP" -> print_str (show_json (dump_registry !world.w_nodes))
  | "PLEGACY" ->
      let a = next_bool c in
      let b = next_bool c in
      print_str
        (show_json (JObj (List.map (fun (k, nd) -> (str_of_Z k, legacy_node a b nd)) !world.w_nodes)))
  | "CRASH" ->
      (* CRASH before? n len: category of a crash point of save-in-place *)
      let before = next_bool c in
      let n = next_int c in
      let len = next_int c in
      let rec int_of_nat = function O -> 0 | S k -> 1 + int_of_nat k in
      print_str
        (str_of_Z
           (z_of_int
              (int_of_nat
                 (crash_category (if before then None else Some (nat_of_int n)) (nat_of_int len)))))
  | "IOF" ->
      (* IOF op kept len: an I/O error at the open (0) / write (1) / close (2) of a save, or none (-1) *)
      let op = next_int c in
      let kept = next_int c in
      let len = next_int c in
      let rec int_of_nat = function O -> 0 | S k -> 1 + int_of_nat k in
      let (a, b) = io_fault_category (if op < 0 then None else Some (nat_of_int op)) (nat_of_int kept) (nat_of_int len) in
      print_str (str_of_Z (z_of_int (int_of_nat a)) @ lit_ " " @ str_of_Z (z_of_int (int_of_nat b)))
  | "SR" ->
      (* SR limit nops (F bytes | E | R)*: stream reader schedule; prints the completed reads *)
      let limit = nat_of_int (next_int c) in
      let nops = next_int c in
      let rec ops i acc =
        if i = 0 then List.rev acc
        else
          let o = match next c with
            | "F" -> SFeed (next_str c)
            | "E" -> SEof
            | "R" -> SRead
            | x -> failwith ("bad stream op " ^ x) in
          ops (i - 1) (o :: acc) in
      let ol = ops nops [] in
      let (res, _) = srun limit { r_buf = []; r_eof = false } ol in
      let show_res = function
        | RLine s -> lit_ "L" @ List.concat (List.map (fun cp -> lit_ " " @ str_of_Z (Z.of_N cp)) s)
        | RReadError _ -> lit_ "RE"
        | RFailed -> lit_ "RF"
        | RNotConnected -> lit_ "NC" in
      print_str (List.concat (List.map (fun r -> show_res r @ lit_ "|") res))
  | "TS" ->
      (* TS limit nops (C ok | D fails | F bytes | E | R fails | W line fault)*: one stream transport over its life *)
      let limit = nat_of_int (next_int c) in
      let nops = next_int c in
      let rec ops i acc =
        if i = 0 then List.rev acc
        else
          let o = match next c with
            | "C" -> TConnect (next_bool c)
            | "D" -> TDisconnect (next_bool c)
            | "F" -> TFeed (next_str c)
            | "E" -> TEof
            | "R" -> TRead (next_bool c)
            | "W" -> let l = next_str c in let f = next_bool c in TWrite (l, (if f then WOSError else WOk))
            | x -> failwith ("bad transport op " ^ x) in
          ops (i - 1) (o :: acc) in
      let (sf, outs) = trun limit ts_init (ops nops []) in
      let show_res = function
        | RLine s -> lit_ "L" @ List.concat (List.map (fun cp -> lit_ " " @ str_of_Z (Z.of_N cp)) s)
        | RReadError _ -> lit_ "RE"
        | RFailed -> lit_ "RF"
        | RNotConnected -> lit_ "NC" in
      let show = function
        | TDone -> lit_ "ok"
        | TConnectError -> lit_ "CE"
        | TPending -> lit_ "P"
        | TRes r -> show_res r in
      print_str (List.concat (List.map (fun o -> show o @ lit_ "|") outs)
                 @ lit_ "closes=" @ str_of_Z (Z.of_nat sf.ts_closes)
                 @ lit_ " out=" @ List.concat (List.map (fun b -> str_of_Z (Z.of_N b) @ lit_ ",") sf.ts_out))
  | "MQW" ->
      let pre = next_str c in
      let line = next_str c in
      (match to_mqtt pre line with
       | None -> print_str (lit_ "ERR")
       | Some ((topic, payload), qos) ->
           print_str (str_of_Z qos @ lit_ "|" @ str_of_Z (Z.of_nat (nat_of_int (List.length topic))) @ lit_ "|" @ topic @ payload))
  | "MQP" ->
      (* the keyword arguments MQTTClient.write hands to the broker client *)
      let pre = next_str c in
      let line = next_str c in
      (match client_write pre line with
       | None -> print_str (lit_ "ERR")
       | Some (((topic, qos), retain), payload) ->
           print_str (str_of_Z qos @ lit_ (if retain then "|R|" else "|-|")
                      @ (match payload with None -> lit_ "N" | Some p -> lit_ "S" @ p)
                      @ lit_ "|" @ topic))
  | "MQC" ->
      (* MQTTClient.connect at a fault position, optionally followed by disconnect and a second connect *)
      let pre = next_str c in
      let enter_fails = next_bool c in
      let faults = next_list c next_bool in
      let again = next_bool c in
      let show (s, o) =
        lit_ (match o with ConnOk -> "ok" | ConnTransportError -> "TE" | ConnRuntimeError -> "RT")
        @ lit_ (if s.mc_client then "|c1" else "|c0") @ lit_ (if s.mc_task then "|t1|" else "|t0|")
        @ str_of_Z s.mc_entered @ lit_ "|" @ str_of_Z (Z.of_nat (nat_of_int (List.length s.mc_subs))) in
      let r1 = mqtt_connect pre enter_fails faults mc_init in
      if not again then print_str (show r1)
      else begin
        let r2 = mqtt_disconnect (fst r1) in
        let r3 = mqtt_connect pre false [] (fst r2) in
        print_str (show r1 @ lit_ " ; " @ show r2 @ lit_ " ; " @ show r3)
      end
  | "MQH" ->
      (* one MQTT client over its whole life: connects, disconnects, deliveries, reads *)
      let nops = next_int c in
      let rec ops i acc =
        if i = 0 then List.rev acc
        else
          let o = match next c with
            | "C" -> LConnect
            | "D" -> LDisconnect
            | "R" -> LRead
            | "M" -> let t = next_str c in let p = next_str c in LDeliver (BMsg (t, p))
            | "E" -> LDeliver BError
            | x -> failwith ("bad life op " ^ x) in
          ops (i - 1) (o :: acc) in
      let (_, outs) = life_run ml_init (ops nops []) in
      let show = function
        | LDone -> lit_ "ok"
        | LRuntimeError -> lit_ "RT"
        | LPending -> lit_ "P"
        | LGot (QLine l) -> lit_ "L " @ l
        | LGot QReadError -> lit_ "RE"
        | LGot QFailed -> lit_ "RF" in
      print_str (List.concat (List.map (fun o -> show o @ lit_ "|") outs))
  | "MQR" ->
      let topic = next_str c in
      let payload = next_str c in
      print_str (of_mqtt topic payload)
  | "MQM" ->
      let f = next_str c in
      let t = next_str c in
      print_str (lit_ (if filter_matches f t then "1" else "0"))
  | "MQS" ->
      let pre = next_str c in
      print_str (List.concat (List.map (fun (t, q) -> t @ lit_ " " @ str_of_Z q @ lit_ "|") (subscriptions pre)))
  | "MQL" ->
      let nev = next_int c in
      let rec evs i acc =
        if i = 0 then List.rev acc
        else
          let e = match next c with
            | "M" -> let t = next_str c in let p = next_str c in BMsg (t, p)
            | "E" -> BError
            | x -> failwith ("bad broker event " ^ x) in
          evs (i - 1) (e :: acc) in
      let show_e = function
        | QLine l -> lit_ "L " @ str_of_Z (Z.of_nat (nat_of_int (List.length l))) @ lit_ ":" @ l
        | QReadError -> lit_ "RE"
        | QFailed -> lit_ "RF" in
      print_str (List.concat (List.map (fun e -> show_e e @ lit_ "|") (receive_loop (evs nev []))))
  | "LC" ->
      (* LC guarded v nchoices (M ok | S | T | U | C | R)*: lifecycle schedule *)
      let guarded = next_bool c in
      let v = nat_of_int (next_int c) in
      let n = next_int c in
      let rec chs i acc =
        if i = 0 then List.rev acc
        else
          let ch = match next c with
            | "M" -> CMain (next_bool c)
            | "S" -> CSaver
            | "T" -> CTimer
            | "U" -> CMutate
            | "C" -> CCancelOwner
            | "R" -> CReenter
            | x -> failwith ("bad choice " ^ x) in
          chs (i - 1) (ch :: acc) in
      let s = lrun guarded (linit v) (chs n []) in
      let rec int_of_nat = function O -> 0 | S k -> 1 + int_of_nat k in
      let m = match s.l_m with MLoad -> "load" | MStart -> "start" | MConnect -> "connect" | MBody -> "body"
        | MDisconnect -> "disconnect" | MCancel -> "cancel" | MAwait -> "await" | MFinal _ -> "final" | MDone -> "done" in
      let sp = match s.l_s with SNone -> "none" | SCreated -> "created" | SSaving (_, _) -> "saving" | SSleeping -> "sleeping"
        | SEnded true -> "cancelled" | SEnded false -> "finished" in
      let f = match s.l_file with FHolds k -> string_of_int (int_of_nat k) | FPartial -> "partial" in
      let e = match s.l_exc with None -> "none" | Some EConnect -> "connect" | Some EBody -> "body"
        | Some EDisconnect -> "disconnect" | Some ECancelled -> "cancelled" | Some EOwnerCancelled -> "owner-cancelled" in
      print_str (lit_ (Printf.sprintf "%s %s file=%s reg=%d disc=%d exc=%s saves=%d" m sp f (int_of_nat s.l_reg)
                         (int_of_nat s.l_disc) e (int_of_nat s.l_saves)))
  | "FL" ->
      (* FL guarded nops (S n c t tag | W n | B | E ok)* nnodes node* : run the flush/send
         race model, then quiesce; print written / buffer / sent as "n c t tag" groups *)
      let guarded = next_bool c in
      let nops = next_int c in
      let rec ops i acc =
        if i = 0 then List.rev acc
        else
          let o =
            match next c with
            | "S" ->
                let n = next_z c in
                let ch = next_z c in
                let t = next_z c in
                let tag = next_z c in
                FSend (((n, ch), t), tag)
            | "W" -> FWake (next_z c)
            | "B" -> FBegin
            | "E" -> FEnd (next_bool c)
            | "D" ->
                let n = next_z c in
                let ch = next_z c in
                let t = next_z c in
                let tag = next_z c in
                FDirectBegin (((n, ch), t), tag)
            | "F" -> FDirectEnd (next_bool c)
            | x -> failwith ("bad flush op " ^ x)
          in
          ops (i - 1) (o :: acc)
      in
      let ol = ops nops [] in
      let nodes = next_list c next_z in
      let s = quiesce guarded (frun guarded finit ol) nodes in
      let show_entries l =
        List.concat
          (List.map
             (fun (((n, ch), t), tag) ->
               str_of_Z n @ [ n_of_int 32 ] @ str_of_Z ch @ [ n_of_int 32 ] @ str_of_Z t
               @ [ n_of_int 32 ] @ str_of_Z tag @ [ n_of_int 59 ])
             l)
      in
      print_str
        (show_entries s.f_written @ [ n_of_int 124 ] @ show_entries s.f_buf @ [ n_of_int 124 ]
        @ show_entries s.f_sent)
  | t -> failwith ("unknown op " ^ t)

let () =
  try
    while true do
      let line = input_line stdin in
      if line <> "" then handle line
    done
  with End_of_file -> ()
